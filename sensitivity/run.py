#!/venv/bin/python
"""Sensitivity catalogue: source-level mutants, each applied to a scratch copy
of /repo under $TMPDIR (removed afterwards) and run against one named
property's check with VERIF_REPO pointing at the copy.  Documentation of what
the checks can see; not part of any check.

    /venv/bin/python sensitivity/run.py [--only NAME ...] [--runs N] [--jobs J]

Writes sensitivity/results.json.
"""
import argparse
import concurrent.futures as cf
import json
import os
import shutil
import subprocess
import sys
import tempfile
import time

HERE = os.path.dirname(os.path.abspath(__file__))
VERIF = os.path.dirname(HERE)
REPO = "/repo"

# (name, property, file, old, new, note)
M = [
    ("drop_proposal_ratio", "C01", "mchap/assemble/mutation.py",
     "mh_ratio = (llk_ratio + lprior_ratio) * temp + lproposal_ratio", "mh_ratio = (llk_ratio + lprior_ratio) * temp",
     "base_step without the haplotype-copy-count proposal ratio: biased only for states with duplicated haplotypes"),
    ("temp_on_proposal_ratio", "C01", "mchap/assemble/mutation.py",
     "mh_ratio = (llk_ratio + lprior_ratio) * temp + lproposal_ratio", "mh_ratio = (llk_ratio + lprior_ratio + lproposal_ratio) * temp",
     "temperature applied to the proposal ratio: biased only for heated chains"),
    ("return_options_from_current", "C01", "mchap/assemble/structural.py",
     "            n_return_options = recombination_step_n_options(option_labels[i])", "            n_return_options = recombination_step_n_options(labels)",
     "return-option count taken from the current labels"),
    ("swap_likelihood_only", "C01", "mchap/assemble/tempering.py",
     "    unnormalized_posterior_i = llk_i + log_prior_i\n    unnormalized_posterior_j = llk_j + log_prior_j",
     "    unnormalized_posterior_i = llk_i\n    unnormalized_posterior_j = llk_j",
     "exchange acceptance ignores the prior (wrong only with inbreeding / different dosage)"),
    ("same_temp_every_chain", "C01", "mchap/assemble/mcmc.py",
     "            temp = temperatures[t]\n", "            temp = temperatures[-1]\n",
     "every chain runs at T=1 while exchanges use the ladder"),
    ("omit_llk_prev_store", "C01", "mchap/assemble/mcmc.py",
     "                llks[t - 1] = llk_prev\n", "                pass\n",
     "carried likelihood of the hotter chain not updated after an exchange"),
    ("start_state_illegal_allele", "C01", "mchap/assemble/mcmc.py",
     "            for j, n in enumerate(n_alleles[heterozygous]):\n                dist[j, n:] = 0.0\n", "",
     "re-introduces the repaired defect e747dde: automatic start state may hold an allele index >= n_alleles[j]"),
    ("start_state_illegal_allele_p", "C10", "mchap/assemble/mcmc.py",
     "            for j, n in enumerate(n_alleles[heterozygous]):\n                dist[j, n:] = 0.0\n", "",
     "same change seen by engine P: a no-coverage sample's record depends on heap state / other samples"),
    ("constant_ibs_off_by_one", "C02", "mchap/calling/prior.py",
     "constant_ibs = count_allele(genotype, genotype[variable_allele]) - 1", "constant_ibs = count_allele(genotype, genotype[variable_allele])",
     "Gibbs conditional prior counts the variable copy itself"),
    ("mh_proposal_ratio_inverted", "C02", "mchap/calling/mcmc.py",
     "lproposals_array[a] = np.log(allele_copies_i / allele_copies)", "lproposals_array[a] = np.log(allele_copies / allele_copies_i)",
     "call MH proposal ratio inverted"),
    ("ped_cache_float32_typed_dict", "C18", "mchap/pedigree/mcmc.py",
     ["from numba import njit\n", "    llk_cache = {}\n    llk_cache[(-1, -1)] = np.nan\n"],
     ["from numba import njit, types\nfrom numba.typed import Dict\n\n_KEY = types.UniTuple(types.int64, 2)\n_VAL = types.float32\n",
      "    llk_cache = Dict.empty(key_type=_KEY, value_type=_VAL)\n"],
     "the pedigree sampler's built-in likelihood cache as a typed dict of float32: invisible interpreted (typed.Dict degrades to dict), seen only by the compiled cache-free-twin probe"),
    ("call_cache_unsorted_key", "C09", "mchap/calling/likelihood.py",
     "key = genotype_alleles_as_index(np.sort(genotype_alleles))", "key = genotype_alleles_as_index(genotype_alleles)",
     "call cache keyed on the unsorted genotype (collisions between different multisets)"),
    ("arraymap_flush_keeps_values", "C09", "mchap/assemble/arraymap.py",
     "                        tree[:] = -1\n                        values[:] = np.nan\n                        return (tree, values, array_length, 1, 0, max_size)\n                    else:\n                        raise ValueError(\n",
     "                        tree[:] = -1\n                        return (tree, values, array_length, 1, 0, max_size)\n                    else:\n                        raise ValueError(\n",
     "tree flush does not reset the NaN miss sentinel (stale values served after a flush)"),
    ("struct_cache_wrong_key", "C09", "mchap/assemble/likelihood.py",
     "        cache = arraymap.set(cache, genotype_new.ravel(), llk, empty_if_full=True)", "        cache = arraymap.set(cache, genotype.ravel(), llk, empty_if_full=True)",
     "structural-change likelihood stored under the un-rearranged genotype"),
    ("ped_swap_shared_mask", "C09", "mchap/pedigree/mcmc.py",
     "    idx_q = sample_read_counts[q] > 0\n", "    idx_q = idx_p\n",
     "re-introduces the repaired defect 80c34e4"),
    ("burn_off_by_one", "C14", "mchap/assemble/classes.py",
     "        new.genotypes = self.genotypes[:, n:]\n        new.llks = self.llks[:, n:]", "        new.genotypes = self.genotypes[:, max(n - 1, 0):]\n        new.llks = self.llks[:, max(n - 1, 0):]",
     "burn(n) keeps one step too many"),
    ("call_posterior_first_chain_only", "C14", "mchap/calling/classes.py",
     "        genotypes = self.genotypes.reshape((n_chain * n_step,) + etc)", "        genotypes = self.genotypes[0].reshape((n_step,) + etc)",
     "call posterior built from the first chain only"),
    ("shuffle_first_column_only", "C15", "mchap/assemble/mutation.py",
     "    np.random.shuffle(substeps)\n", "    np.random.shuffle(substeps[:, 0])\n",
     "only the haplotype column of the sweep table is shuffled: (h, j) pairs no longer each visited once"),
    ("random_breaks_with_replacement", "C15", "mchap/assemble/structural.py",
     "            point = np.random.choice(options)\n            indicies[point] = False", "            point = np.random.choice(np.arange(1, n))\n            indicies[point] = False",
     "break points drawn with replacement: fewer intervals than requested, trailing zero-length intervals"),
    ("int8_sweep_table", "C15", "mchap/assemble/mutation.py",
     "dtype=np.int64)\n\n    for h in range(ploidy):", "dtype=np.int8)\n\n    for h in range(ploidy):",
     "re-introduces the repaired defect 223b6e9"),
    ("fix_threshold_strict", "C15", "mchap/assemble/mcmc.py",
     "        homozygous = np.any(fixed, axis=-1)", "        homozygous = np.all(fixed, axis=-1)",
     "a site is fixed only if every allele qualifies (never): fixed sites are sampled"),
    ("tau_weights_dropped", "C18", "mchap/pedigree/prior.py",
     "    ltau_q = np.log(tau_q) if tau_q > 0 else -np.inf", "    ltau_q = ltau_p",
     "gamete-of-origin terms weighted equally again (re-introduces 8c9a2b4 for unbalanced gametes)"),
    ("ped_mh_no_proposal_ratio", "C18", "mchap/pedigree/mcmc.py",
     "                0.0, llk_ratio + lprior_ratio + lproposal_ratio\n", "                0.0, llk_ratio + lprior_ratio\n",
     "pedigree MH without the copy-count proposal ratio"),
    ("swap_reversal_wrong", "C18", "mchap/pedigree/mcmc.py",
     "    reversal = (1 + count_allele(sample_genotypes[p], allele_q)) * (\n        1 + count_allele(sample_genotypes[q], allele_p)\n    )",
     "    reversal = (count_allele(sample_genotypes[p], allele_q)) * (\n        count_allele(sample_genotypes[q], allele_p)\n    ) + 1",
     "reverse-proposal count of the parental swap wrong"),
    ("seed_once_per_process", "C08", "mchap/assemble/mcmc.py",
     "        if self.random_seed is not None:\n            np.random.seed(self.random_seed)\n            seed_numba(self.random_seed)",
     "        global _SEEDED\n        if self.random_seed is not None and not globals().get('_SEEDED'):\n            _SEEDED = True\n            np.random.seed(self.random_seed)\n            seed_numba(self.random_seed)",
     "assemble seeds the RNGs once per process instead of once per fit"),
    ("drop_job_get", "C08", "mchap/application/baseclass.py",
     "        for job in jobs:\n            job.get()\n", "        for job in jobs:\n            job.wait()\n",
     "worker exceptions are never re-raised: a failing locus is silently omitted, exit status 0"),
    ("kill_before_jobs_finish", "C08", "mchap/application/baseclass.py",
     "        for job in jobs:\n            job.get()\n\n        queue.put(KILL_SIGNAL)", "        queue.put(KILL_SIGNAL)\n        for job in jobs:\n            job.get()\n",
     "KILL_SIGNAL queued before the workers finish: later records lost depending on the interleaving"),
    ("no_header_flush", "C08", "mchap/application/baseclass.py",
     "            sys.stdout.write(line + \"\\n\")\n        sys.stdout.flush()\n\n        manager = mp.Manager()", "            sys.stdout.write(line + \"\\n\")\n\n        manager = mp.Manager()",
     "header not flushed before the pool is forked: every child re-emits it"),
    ("workers_write_directly", "C08", "mchap/application/baseclass.py",
     "        for line in self._assemble_loci_wrapped(loci):\n            queue.put(str(line))", "        for line in self._assemble_loci_wrapped(loci):\n            sys.stdout.write(str(line))\n            sys.stdout.flush()\n            sys.stdout.write(\"\\n\")\n            sys.stdout.flush()",
     "workers write the record and the newline separately, bypassing the single writer: lines can be spliced"),
    ("call_seed_once", "C10", "mchap/calling/classes.py",
     "        if self.random_seed is not None:\n            np.random.seed(self.random_seed)\n            seed_numba(self.random_seed)",
     "        if self.random_seed is not None and not globals().get('_SEEDED'):\n            globals()['_SEEDED'] = True\n            np.random.seed(self.random_seed)\n            seed_numba(self.random_seed)",
     "call seeds once per process: a sample's column depends on the samples fitted before it"),
    ("pool_drops_duplicate_reads", "C10", "mchap/application/baseclass.py",
     "                    read_chars = np.concatenate(read_chars)\n                    read_quals = np.concatenate(read_quals)",
     "                    read_chars = np.concatenate(read_chars[:2])\n                    read_quals = np.concatenate(read_quals[:2])",
     "a pool uses only its first two members' reads"),
    ("cli_assemble_inbreeding_dropped", "C01", "mchap/application/assemble.py",
     "                        inbreeding=data.sample_inbreeding[sample],\n", "",
     "mchap assemble constructs its sampler without the sample's inbreeding coefficient (library untouched): cli flavour"),
    ("cli_call_exact_ignores_prior_mode_path", "C02", "mchap/application/call_exact.py",
     "                        frequencies=prior_frequencies,\n                        return_support_prob=True,", "                        return_support_prob=True,",
     "call-exact's low-memory path ignores --prior-frequencies: call and call-exact no longer estimate the same posterior"),
    ("cli_call_inbreeding_dropped", "C02", "mchap/application/call.py",
     "                        inbreeding=data.sample_inbreeding[sample],\n", "",
     "mchap call constructs its sampler without the sample's inbreeding coefficient"),
    ("cli_assemble_burn_ignored", "C14", "mchap/application/assemble.py",
     "                    .burn(self.mcmc_burn)\n", "                    .burn(0)\n",
     "mchap assemble summarises the whole trace instead of removing --mcmc-burn steps"),
    ("cli_fix_homozygous_not_forwarded", "C15", "mchap/application/assemble.py",
     "                        fix_homozygous=self.mcmc_fix_homozygous,\n", "",
     "--mcmc-fix-homozygous never reaches the sampler"),
    ("cli_pedigree_error_columns_swapped", "C18", "mchap/application/call_pedigree.py",
     "            gamete_error[i] = self.gamete_error[s]\n", "            gamete_error[i] = self.gamete_error[s][::-1]\n",
     "call-pedigree hands the two parents' error terms to the sampler in swapped order"),
    ("handles_cached_across_fork", "C08", "mchap/application/baseclass.py",
     "                    with pysam.AlignmentFile(\n                        path, reference_filename=self.ref\n                    ) as alignment_file:\n",
     "                    _hc = globals().setdefault('_HANDLE_CACHE', {})\n                    if path not in _hc:\n                        _hc[path] = pysam.AlignmentFile(path, reference_filename=self.ref)\n                    if True:\n                        alignment_file = _hc[path]\n",
     "alignment files opened once per OS process and re-used; a handle opened by earlier work in the parent is shared by forked workers (one kernel offset)"),
]


def run_one(m, runs, keep):
    name, prop, rel, old, new, note = m
    tmp = tempfile.mkdtemp(prefix="verif-mut-%s-" % name, dir=os.environ.get("TMPDIR"))
    dst = os.path.join(tmp, "repo")
    t0 = time.time()
    try:
        subprocess.run(["rsync", "-a", "--exclude", ".git", "--exclude", "__pycache__", REPO + "/", dst + "/"], check=True)
        p = os.path.join(dst, rel)
        s = open(p).read()
        if not isinstance(old, (list, tuple)) and s.count(old) != 1:
            return {"name": name, "property": prop, "status": "pattern-not-found (%d)" % s.count(old)}
        if isinstance(old, (list, tuple)):  # several edits in one file
            for o_, n_ in zip(old, new):
                if o_ not in s:
                    raise SystemExit("mutant %s: text to replace not found" % name)
                s = s.replace(o_, n_)
            open(p, "w").write(s)
        else:
            open(p, "w").write(s.replace(old, new))
        env = dict(os.environ, VERIF_REPO=dst, VERIF_CACHE_BASE=os.path.join(tmp, "cache"))
        cmd = [os.path.join(VERIF, "check"), prop, "--no-evidence"] + (["--runs", str(runs)] if runs else [])
        r = subprocess.run(cmd, capture_output=True, text=True, env=env, timeout=3600)
        lines = [l for l in r.stdout.splitlines() if l.startswith("VIOLATION") or l.startswith("  class=") or l.startswith("HARNESS")]
        return {"name": name, "property": prop, "file": rel, "note": note, "exit": r.returncode,
                "caught": r.returncode == 1, "summary": lines[:6], "tail": r.stdout.splitlines()[-1:] , "wall_s": round(time.time() - t0, 1)}
    finally:
        if not keep:
            shutil.rmtree(tmp, ignore_errors=True)


def main():
    ap = argparse.ArgumentParser()
    ap.add_argument("--only", nargs="*")
    ap.add_argument("--runs", type=int, default=0)
    ap.add_argument("--jobs", type=int, default=3)
    ap.add_argument("--keep", action="store_true")
    a = ap.parse_args()
    todo = [m for m in M if not a.only or m[0] in a.only or m[1] in a.only]
    out = []
    with cf.ThreadPoolExecutor(a.jobs) as ex:
        for res in ex.map(lambda m: run_one(m, a.runs, a.keep), todo):
            out.append(res)
            print(json.dumps({k: res.get(k) for k in ("name", "property", "exit", "caught", "status", "wall_s")}), flush=True)
            for l in res.get("summary", [])[:3]:
                print("    " + l[:200])
    path = os.path.join(HERE, "results.json")
    prev = {}
    if os.path.exists(path):
        prev = {r["name"]: r for r in json.load(open(path))}
    for r in out:
        prev[r["name"]] = r
    json.dump(sorted(prev.values(), key=lambda r: (r["property"], r["name"])), open(path, "w"), indent=1)
    missed = [r["name"] for r in out if not r.get("caught")]
    print("mutants run: %d, caught: %d, not caught: %r" % (len(out), len(out) - len(missed), missed))


if __name__ == "__main__":
    main()
