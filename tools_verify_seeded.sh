#!/bin/sh
# usage: tools_verify_seeded.sh <dir with patch.diff + demo.py> <name> [full]
# Confirms in a scratch git worktree of /repo: patch applies; demo fails with it and passes without it;
# the existing tests pass with it (full => whole suite serially, else skipped here).
D=$1; NAME=$2; FULL=$3
W=/tmp/vs/$NAME
rm -rf $W; mkdir -p /tmp/vs
git -C /repo worktree add -q --detach $W HEAD || exit 3
cd $W
# numba's on-disk cache is not invalidated when only a callee's file changes: clean and patched runs get separate, fresh cache dirs
run_demo() { export NUMBA_CACHE_DIR=/tmp/vs/$NAME.nc-$1; rm -rf $NUMBA_CACHE_DIR; if head -5 $D/demo.py | grep -q pytest || grep -q "^def test_" $D/demo.py; then PYTHONPATH=$W timeout 900 /venv/bin/python -m pytest -q -p no:cacheprovider $D/demo.py >/tmp/vs/$NAME.demo.log 2>&1; else PYTHONPATH=$W timeout 900 /venv/bin/python -W ignore $D/demo.py >/tmp/vs/$NAME.demo.log 2>&1; fi; echo $?; }
CLEAN=$(run_demo clean)
git apply $D/patch.diff || { echo "$NAME: PATCH DOES NOT APPLY"; git -C /repo worktree remove --force $W; exit 3; }
MUT=$(run_demo mut)
TESTS="skipped"
if [ "$FULL" = "full" ]; then
  PYTHONPATH=$W timeout 3000 /venv/bin/python -m pytest -q -p no:cacheprovider --timeout=900 -x --deselect mchap/tests/test_docs.py --deselect "mchap/tests/test_jitutils.py::test_comb[0-0]" > /tmp/vs/$NAME.tests.log 2>&1
  TESTS="rc=$? $(tail -1 /tmp/vs/$NAME.tests.log)"
fi
echo "$NAME: demo_clean_rc=$CLEAN demo_mutant_rc=$MUT tests: $TESTS"
cd /; git -C /repo worktree remove --force $W; rm -rf /tmp/vs/$NAME.nc-clean /tmp/vs/$NAME.nc-mut
