#!/bin/sh
# Soak: every check at many VERIF_SEED values; prints one line per (seed, property).
# usage: tools_soak.sh <first seed> <last seed> [tier] [props...]
A=$1; B=$2; TIER=${3:-quick}; shift 3 2>/dev/null
PROPS=${*:-C01 C02 C09 C14 C15 C18 C08 C10}
HERE="$(cd "$(dirname "$0")" && pwd)"
s=$A
while [ $s -le $B ]; do
  for p in $PROPS; do
    out=$(VERIF_SEED=$s "$HERE/check" $p --tier $TIER --no-evidence 2>&1)
    rc=$?
    echo "seed=$s prop=$p rc=$rc $(echo "$out" | tail -1)"
    if [ $rc -ne 0 ]; then echo "$out" | grep -E "VIOLATION|class=|HARNESS" | head -8; fi
  done
  s=$((s+1))
done
