"""Collect confirmed seeded changes into /verif/seeded/<id>/ (patch.diff, demo.py, README.md, meta.json)."""
import json, os, shutil, sys
META = {
 "C01-m1": dict(property="C01", breaks="mutation move of heated chains: prior ratio and copy-count proposal ratio skipped when inbreeding == 0 ('they cancel' - true only at T = 1)",
                needs="a heated chain (T < 1), inbreeding 0, and a mutation that changes a haplotype's copy number (duplicated haplotypes)",
                caught_by="C01 quick: detailed_balance_mutation (298 of 1200 runs)", strengthened=None),
 "C01-m2": dict(property="C01", breaks="orchestration: llks[t-1] not updated after an accepted exchange, the hotter chain carries a stale likelihood",
                needs="temperature ladder > 1, an accepted exchange between genotypes of different likelihood, then a further move of the hotter chain",
                caught_by="C01 quick: carried_llk (514 runs), trace_llk_mismatch; also C09 carried_llk", strengthened=None),
 "C08-m1": dict(property="C08", breaks="DenovoMCMC.fit treats random_seed 0 as 'no seed' (if self.random_seed:) - assemble --mcmc-seed 0 depends on process history",
                needs="--mcmc-seed 0 and anything that changes the RNG state before a fit (other loci, cores, prior work)",
                caught_by="C08 quick: record_differs (21 of 240 batches)", strengthened="--mcmc-seed now drawn from {0, 0, 1, 11, 42, 12345, 2**31-1} (0 was never used before)"),
 "C08-m2": dict(property="C08", breaks="hand-written block split in _run_stdout_multi_core drops the last len(loci) % n_cores loci: silently omitted, exit 0",
                needs="--cores N >= 2 with more loci than N and not a multiple of N", caught_by="C08 quick: missing_record (129 batches), silent_omission", strengthened=None),
 "C09-m1": dict(property="C09", breaks="chain_swap_step swaps through aliased views: both chains end up with genotype_j while the likelihoods are exchanged",
                needs="more than one temperature and an accepted exchange", caught_by="C09 quick: state_update (410 of 1500 runs); C01 also", strengthened=None),
 "C09-m2": dict(property="C09", breaks="pair_allele_swap_step subsets parent q's reads with parent p's mask again (re-introduces repaired defect 80c34e4)",
                needs="parent q with more distinct reads than p and the swap step being first to evaluate that (q, genotype) key",
                caught_by="C09 quick: cached_value_wrong (19 runs); C18 detailed_balance_ped_swap", strengthened=None),
 "C10-m1": dict(property="C10", breaks="parse_sample_pools groups pool-file lines with itertools.groupby: members of a pool whose lines are not adjacent are lost",
                needs="a --sample-pool file in which a pool's lines are interleaved with another pool's", caught_by="C10 quick: pool_differs_from_merged (35 of 240 batches)",
                strengthened="pool files are now written in tape-shuffled line order (they were grouped pool by pool before, which could not expose this)"),
 "C10-m2": dict(property="C10", breaks="assemble --report GL computes every sample's GL from the last sample's reads (stale loop variables)",
                needs="assemble with --report GL and at least two samples", caught_by="C10 quick: sample_column_depends_on_other_samples (52 of 240 batches)",
                strengthened="GL added to the C10 report swarm and compared per genotype through haplotype sequences (it was never requested before)"),
 "C14-m1": dict(property="C14", breaks="integer.argsort 'optimised' to a packed int64 key: beyond 22 positions leading sites get weight 0, so the canonical sort depends on storage order",
                needs="an assemble trace with more than 22 SNVs, haplotypes differing only in the leading sites, different row orders at different steps",
                caught_by="C14 quick: posterior_mismatch (77 of 1500 runs), support_mismatch",
                strengthened="new 'walk' sub-scenario: tape-driven long-locus (1-80 SNVs) histories with per-step row permutation (sampler runs had <= 5 SNVs and missed it)"),
 "C14-m2": dict(property="C14", breaks="PosteriorGenotypeAllelesDistribution.mode(genotype_support=True) returns the support of the single most frequent genotype instead of the most probable allele set",
                needs="ploidy > 2 with the most frequent genotype outside the allele set that has most total mass", caught_by="C14 quick: support_mismatch (146 runs), incongruence_flag", strengthened=None),
 "C15-m1": dict(property="C15", breaks="random_breaks allocates its result as int8: interval ends wrap negative for >= 128 SNVs",
                needs="a locus with 128 or more variable SNVs", caught_by="C15 quick: intervals_not_partition (100 of 1600 runs)", strengthened=None),
 "C15-m2": dict(property="C15", breaks="DenovoMCMC._mcmc no longer forwards read_counts to the homozygosity screen: wrong sites are fixed",
                needs="de-duplicated reads with unequal counts and an SNV whose weighted / unweighted posterior fall on different sides of the threshold",
                caught_by="C15 quick: fixed_sites (18 runs), sut_exception (shape assertion)", strengthened=None),
 "C18-m1": dict(property="C18", breaks="sample_children_matrix lists a selfed child twice under its parent: the child's inheritance term enters the parent's conditional squared",
                needs="a pedigree with a selfed individual, update target = the selfing parent", caught_by="C18 quick: ped_gibbs_not_full_conditional (143 runs), detailed_balance_ped_mh (73)", strengthened=None),
 "C18-m2": dict(property="C18", breaks="generic_markov_blanket_log_probability reads gamete_error[i, 0] for parent q: the swap move's acceptance is not the MH ratio of the joint",
                needs="different error rates on the two parental edges of an individual in the pair's blanket", caught_by="C18 quick: detailed_balance_ped_swap (259 runs)", strengthened=None),
 "C02-m1": dict(property="C02"), "C02-m2": dict(property="C02"),
}
def main():
    for name in sys.argv[1:]:
        pid, m = name.split("-")
        src = "/tmp/seed/%s.out/%s" % (pid, m)
        dst = "/verif/seeded/%s" % name
        os.makedirs(dst, exist_ok=True)
        for f in ("patch.diff", "demo.py", "README.md"):
            shutil.copy(os.path.join(src, f), os.path.join(dst, f))
        meta = dict(META[name])
        meta["id"] = name
        meta["origin"] = "fresh sub-agent given only the property record and a scratch git worktree of /repo (nothing from /verif)"
        meta["confirmed"] = {"how": "tools_verify_seeded.sh in a scratch worktree /tmp/vs/%s of /repo HEAD: patch applies; demo.py exit 0 without the patch, non-zero with it; whole existing suite (serial, baseline command minus the 4 baseline failures) passes with it" % name,
                             "check_run": "tools_try_patch.sh seeded/%s/patch.diff %s (scratch copy of /repo + VERIF_REPO; /repo itself never modified)" % (name, pid)}
        json.dump(meta, open(os.path.join(dst, "meta.json"), "w"), indent=1)
        print("collected", name)
if __name__ == "__main__":
    main()
