"""Collect confirmed seeded changes into /verif/seeded/<id>/ (patch.diff, demo.py, README.md, meta.json)."""
import json, os, shutil, sys
META = {
 "C01-m1": dict(property="C01", breaks="mutation move of heated chains: prior ratio and copy-count proposal ratio skipped when inbreeding == 0 ('they cancel' - true only at T = 1)",
                needs="a heated chain (T < 1), inbreeding 0, and a mutation that changes a haplotype's copy number (duplicated haplotypes)",
                caught_by="C01 quick: detailed_balance_mutation (298 of 1200 runs)", strengthened=None),
 "C01-m2": dict(property="C01", breaks="orchestration: llks[t-1] not updated after an accepted exchange, the hotter chain carries a stale likelihood",
                needs="temperature ladder > 1, an accepted exchange between genotypes of different likelihood, then a further move of the hotter chain",
                caught_by="C01 quick: carried_llk (514 runs), trace_llk_mismatch; also C09 carried_llk", strengthened=None),
 "C08-m1": dict(property="C08", breaks="DenovoMCMC.fit treats random_seed 0 as 'no seed' (if self.random_seed:) - assemble --mcmc-seed 0 depends on process history",
                needs="--mcmc-seed 0 and anything that changes the RNG state before a fit (other loci, cores, prior work)",
                caught_by="C08 quick: record_differs (21 of 240 batches)", strengthened="--mcmc-seed now drawn from {0, 0, 1, 11, 42, 12345, 2**31-1} (0 was never used before)"),
 "C08-m2": dict(property="C08", breaks="hand-written block split in _run_stdout_multi_core drops the last len(loci) % n_cores loci: silently omitted, exit 0",
                needs="--cores N >= 2 with more loci than N and not a multiple of N", caught_by="C08 quick: missing_record (129 batches), silent_omission", strengthened=None),
 "C09-m1": dict(property="C09", breaks="chain_swap_step swaps through aliased views: both chains end up with genotype_j while the likelihoods are exchanged",
                needs="more than one temperature and an accepted exchange", caught_by="C09 quick: state_update (410 of 1500 runs); C01 also", strengthened=None),
 "C09-m2": dict(property="C09", breaks="pair_allele_swap_step subsets parent q's reads with parent p's mask again (re-introduces repaired defect 80c34e4)",
                needs="parent q with more distinct reads than p and the swap step being first to evaluate that (q, genotype) key",
                caught_by="C09 quick: cached_value_wrong (19 runs); C18 detailed_balance_ped_swap", strengthened=None),
 "C10-m1": dict(property="C10", breaks="parse_sample_pools groups pool-file lines with itertools.groupby: members of a pool whose lines are not adjacent are lost",
                needs="a --sample-pool file in which a pool's lines are interleaved with another pool's", caught_by="C10 quick: pool_differs_from_merged (35 of 240 batches)",
                strengthened="pool files are now written in tape-shuffled line order (they were grouped pool by pool before, which could not expose this)"),
 "C10-m2": dict(property="C10", breaks="assemble --report GL computes every sample's GL from the last sample's reads (stale loop variables)",
                needs="assemble with --report GL and at least two samples", caught_by="C10 quick: sample_column_depends_on_other_samples (52 of 240 batches)",
                strengthened="GL added to the C10 report swarm and compared per genotype through haplotype sequences (it was never requested before)"),
 "C14-m1": dict(property="C14", breaks="integer.argsort 'optimised' to a packed int64 key: beyond 22 positions leading sites get weight 0, so the canonical sort depends on storage order",
                needs="an assemble trace with more than 22 SNVs, haplotypes differing only in the leading sites, different row orders at different steps",
                caught_by="C14 quick: posterior_mismatch (77 of 1500 runs), support_mismatch",
                strengthened="new 'walk' sub-scenario: tape-driven long-locus (1-80 SNVs) histories with per-step row permutation (sampler runs had <= 5 SNVs and missed it)"),
 "C14-m2": dict(property="C14", breaks="PosteriorGenotypeAllelesDistribution.mode(genotype_support=True) returns the support of the single most frequent genotype instead of the most probable allele set",
                needs="ploidy > 2 with the most frequent genotype outside the allele set that has most total mass", caught_by="C14 quick: support_mismatch (146 runs), incongruence_flag", strengthened=None),
 "C15-m1": dict(property="C15", breaks="random_breaks allocates its result as int8: interval ends wrap negative for >= 128 SNVs",
                needs="a locus with 128 or more variable SNVs", caught_by="C15 quick: intervals_not_partition (100 of 1600 runs)", strengthened=None),
 "C15-m2": dict(property="C15", breaks="DenovoMCMC._mcmc no longer forwards read_counts to the homozygosity screen: wrong sites are fixed",
                needs="de-duplicated reads with unequal counts and an SNV whose weighted / unweighted posterior fall on different sides of the threshold",
                caught_by="C15 quick: fixed_sites (18 runs), sut_exception (shape assertion)", strengthened=None),
 "C18-m1": dict(property="C18", breaks="sample_children_matrix lists a selfed child twice under its parent: the child's inheritance term enters the parent's conditional squared",
                needs="a pedigree with a selfed individual, update target = the selfing parent", caught_by="C18 quick: ped_gibbs_not_full_conditional (143 runs), detailed_balance_ped_mh (73)", strengthened=None),
 "C18-m2": dict(property="C18", breaks="generic_markov_blanket_log_probability reads gamete_error[i, 0] for parent q: the swap move's acceptance is not the MH ratio of the joint",
                needs="different error rates on the two parental edges of an individual in the pair's blanket", caught_by="C18 quick: detailed_balance_ped_swap (259 runs)", strengthened=None),
 "C02-m1": dict(property="C02", breaks="call llk cache key bit-packed with 64 // ploidy bits per allele: different genotypes collide once n_haplotypes > 2**(64 // ploidy); gibbs/mh pick up another genotype's likelihood",
                needs="cache on (always in CallingMCMC.fit), high ploidy with many haplotypes (ploidy 10 & > 64 haplotypes, ploidy 12 & > 32, ploidy 32 & > 4) and a colliding genotype visited earlier in the chain",
                caught_by="C02 quick: gibbs_not_full_conditional, detailed_balance_call_mh (26 of 6000 runs); C09 quick: cached_value_wrong",
                strengthened="rare large call shapes added (ploidy 8-32, 20-72 haplotypes; ~1.5% of runs); C09's cache audits made key-agnostic (they decoded keys as VCF indices and crashed on this change)"),
 "C02-m2": dict(property="C02", breaks="mh_options drops prior and proposal ratio when inbreeding == 0 ('they cancel'): the allele-frequency factor is lost, MH no longer targets the posterior under skewed frequencies",
                needs="Metropolis-Hastings step type, inbreeding exactly 0 and a skewed prior frequency vector", caught_by="C02 quick: detailed_balance_call_mh (510 of 6000 runs)", strengthened=None),
 "C01-n1": dict(property="C01", breaks="interval_step tempers the proposal ratio: (llk + prior + proposal) * temp", needs="heated chain and a state whose forward / return option counts differ (duplicated segments, ploidy >= 3)",
                caught_by="C01 quick: detailed_balance_structural (428 of 1500 runs)", strengthened=None),
 "C01-n2": dict(property="C01", breaks="_denovo_assembler no longer passes inbreeding to chain_swap_step: exchange acceptance uses the non-inbred prior",
                needs="inbreeding > 0, a heated chain and two chain states with different dosage partitions", caught_by="C01 quick: detailed_balance_exchange (404 of 1500 runs)", strengthened=None),
 "C09-n1": dict(property="C09", breaks="pedigree gibbs_probabilities slices reads[0:n_obs] instead of masking read_counts > 0: likelihood cached under (sample, genotype) is computed on the wrong reads",
                needs="a sample with a zero-count read in front of a positive-count read (non-tail padding), Gibbs step type", caught_by="C09 quick: cached_value_wrong (229 of 4000 runs)",
                strengthened="pedigree instances now interleave zero-count rows with real reads (padding used to sit only at the tail)"),
 "C09-n2": dict(property="C09", breaks="_denovo_assembler 'tidy-up': the local llk written to the cold-chain trace is not updated by an accepted exchange",
                needs="two or more temperatures and an accepted cold-chain exchange in that step", caught_by="C09 quick: trace_llk_mismatch (646 of 4000 runs); C01 also", strengthened=None),
 "C10-n1": dict(property="C10", breaks="encode_sample_reads caches extracted reads per BAM path: every later sample from a multi-sample BAM silently gets the first sample's reads",
                needs="one BAM holding several samples (several @RG with different SM)", caught_by="C10 quick: sample_column_depends_on_other_samples (85 of 320 batches)", strengthened=None),
 "C10-n2": dict(property="C10", breaks="call-exact pairs inbreeding coefficients with samples by position (zip over dict values)",
                needs="call-exact with an --inbreeding FILE holding different values whose line order differs from the run's sample order, or a superset file",
                caught_by="C10 quick: sample_column_depends_on_other_samples (34 of 320 batches)", strengthened="--inbreeding (constant or per-sample file in tape-shuffled line order, superset of each run's samples) added to the C10 swarm"),
 "C14-n1": dict(property="C14", breaks="GenotypeMultiTrace.posterior() memoised in self._posterior and burn() built with copy(self): a burnt trace reports its parent's posterior",
                needs="posterior() called on a trace object before burn(), or burn -> posterior -> burn chains", caught_by="C14 quick: posterior_mismatch (852 of 4000 runs)",
                strengthened="call histories on trace objects (direct burn(n), incremental burn(1) chains, summaries of the parent first) are now tape-chosen; before, every summary came from a fresh trace.burn(n)"),
 "C14-n2": dict(property="C14", breaks="_posterior_frequencies' per-allele 'last seen' stamp is the within-chain step index: occurrence is under-counted across chains",
                needs="multi-chain trace with an allele present at step s of chain c, absent until step s of chain c+1", caught_by="C14 quick: allele_frequency_mismatch (1304 of 4000 runs)", strengthened=None),
 "C02-n1": dict(property="C02", breaks="CallingMCMC.fit skips the chain for a sample without reads and draws genotypes independently from the prior frequencies (ignores inbreeding)",
                needs="a zero-read sample at a locus with SNVs and inbreeding > 0", caught_by="C02 quick: trace_accounting (387 of 6000 runs: fit() returned a trace the sampler never produced); C14 also",
                strengthened="what fit() returns is now compared with the states observed at the sampler seams; unmodelled numpy.random calls fall back to a tape-seeded RandomState instead of a harness error"),
 "C02-n2": dict(property="C02", breaks="compound_step reuses the previous sub-step's Gibbs conditional when the next copy holds a haplotype with the same SEQUENCE (valid only for the same allele index)",
                needs="two alleles with identical sequences in the haplotype set, inbreeding > 0, Gibbs, a scan order visiting one duplicate right after the other",
                caught_by="C02 quick: gibbs_draw_not_full_conditional (38 of 6000 runs)",
                strengthened="the vector each Gibbs move is DRAWN from is now verified at the draw (before, only gibbs_options' return value was); duplicate haplotype rows added to the instances; "
                             "the 'every position once per sweep' accounting, which flagged this change for the wrong reason, was demoted to a probe because the statement does not require a full sweep"),
 "C18-n1": dict(property="C18", breaks="trio_allele_log_pmf passes gamete_ploidy=tau_q to gamete_const_log_pmf for gamete p (copy-paste slip): Gibbs conditional wrong for unbalanced gametes",
                needs="both parents known, tau_p != tau_q and comb(ploidy_p, tau_p-1) != comb(ploidy_p, tau_q-1), e.g. 4x x 2x -> 3x", caught_by="C18 quick: ped_gibbs_not_full_conditional (1027 of 4000 runs)", strengthened=None),
 "C18-n2": dict(property="C18", breaks="pair_allele_swap_step skips the read-likelihood ratio unless BOTH parents have reads ('and' instead of 'or')",
                needs="a parental pair in which exactly one parent has no reads", caught_by="C18 quick: detailed_balance_ped_swap (457 of 4000 runs)", strengthened=None),
 "C08-n1": dict(property="C08", breaks="extract_sample_ids iterates a set of sample names: the sample column order follows str hashing, i.e. PYTHONHASHSEED",
                needs="a BAM that yields two or more sample ids and two separate processes (never visible inside one process)",
                caught_by="C08 quick: hashseed_dependence (post-batch re-execution of 12 batches in a fresh interpreter under PYTHONHASHSEED=4242)",
                strengthened="the hash-seed re-execution was a thorough-tier extra; it now also runs (12 batches) in the quick tier"),
 "C08-n2": dict(property="C08", breaks="_writer uses queue.get(timeout=30) and treats queue.Empty as 'producers have gone': records arriving after a quiet period are never written, exit status 0",
                needs="--cores >= 2 and a gap of more than 30 s between records reaching the writer (one slow locus)",
                caught_by="C08 quick: missing_record", strengthened="waits with a deadline (queue.get / AsyncResult.get / wait with timeout=) are now modelled: while the wait is unsatisfied the scheduler may let the deadline expire (stalled-node fault); before, the stub did not accept timeout= at all"),
 "C15-n1": dict(property="C15", breaks="the homozygosity screen is skipped when fix_homozygous >= 1.0: sites whose single-SNV posterior is exactly 1.0 are no longer fixed at a threshold of exactly 1.0",
                needs="--mcmc-fix-homozygous 1.0 and deep clean reads (posterior saturates to 1.0 in float64)", caught_by="C15 quick: fixed_sites (13 of 6000 runs)",
                strengthened="saturated posteriors (every other genotype < 3e-20) are now decided at threshold 1.0 instead of being skipped as 'within 1e-9 of the threshold'; deeper read sets added"),
 "C15-n2": dict(property="C15", breaks="random_breaks' guard relaxed from breaks >= n to n < 1: for breaks >= n it returns trailing empty [0, 0] intervals instead of refusing",
                needs="more breaks than SNVs (n_intervals mode with most sites fixed)", caught_by="C15 quick: intervals_not_partition (406 of 6000 runs)",
                strengthened="random_breaks is now also driven with breaks >= n: accepted outcomes are a ValueError or a true partition"),
}
def main():
    for name in sys.argv[1:]:
        pid, m = name.split("-")
        src = "/tmp/seed/%s.out/%s" % (pid, m)
        if not os.path.isdir(src):
            print("missing", src); continue
        dst = "/verif/seeded/%s" % name
        os.makedirs(dst, exist_ok=True)
        for f in ("patch.diff", "demo.py", "README.md"):
            shutil.copy(os.path.join(src, f), os.path.join(dst, f))
        meta = dict(META[name])
        meta["id"] = name
        meta["origin"] = "fresh sub-agent given only the property record and a scratch git worktree of /repo (nothing from /verif)"
        meta["confirmed"] = {"how": "tools_verify_seeded.sh in a scratch worktree /tmp/vs/%s of /repo HEAD: patch applies; demo.py exit 0 without the patch, non-zero with it; whole existing suite (serial, baseline command minus the 4 baseline failures) passes with it" % name,
                             "check_run": "tools_try_patch.sh seeded/%s/patch.diff %s (scratch copy of /repo + VERIF_REPO; /repo itself never modified)" % (name, pid)}
        json.dump(meta, open(os.path.join(dst, "meta.json"), "w"), indent=1)
        print("collected", name)
if __name__ == "__main__":
    main()
