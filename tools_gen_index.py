"""Regenerates seeded/INDEX.md from seeded/*/meta.json (the header paragraph is kept)."""
import glob, json, os
HERE = os.path.dirname(os.path.abspath(__file__))
path = os.path.join(HERE, "seeded", "INDEX.md")
head = []
for line in open(path):
    if line.startswith("| id |"):
        break
    head.append(line)
rows = []
for d in sorted(glob.glob(os.path.join(HERE, "seeded", "C*"))):
    m = json.load(open(os.path.join(d, "meta.json")))
    esc = lambda x: (x or "-").replace("|", "\\|")
    rows.append("| %s | %s | %s | %s | %s | %s |" % (m["id"], m["property"], esc(m["breaks"]), esc(m["needs"]), esc(m["caught_by"]), esc(m.get("strengthened"))))
open(path, "w").write("".join(head) + "| id | property | what it breaks | needs | caught by | check strengthened because of it |\n|---|---|---|---|---|---|\n" + "\n".join(rows) + "\n")
print(len(rows), "rows")
