"""Launcher: picks the engine environment for the property and re-executes
once so that NUMBA_DISABLE_JIT / PYTHONHASHSEED / NUMBA_CACHE_DIR are in force
before anything is imported."""
import os
import sys

HERE = os.path.dirname(os.path.abspath(__file__))
sys.path.insert(0, HERE)

ENGINE = {"C01": "K", "C02": "K", "C09": "K", "C14": "K", "C15": "K", "C18": "K", "C08": "P", "C10": "P"}


def main():
    if len(sys.argv) < 2:
        print("usage: check <property> [--tier quick|thorough] [--replay file]")
        return 2
    prop = sys.argv[1]
    if prop == "selftest":
        from sim import selftest
        return selftest.main(sys.argv[2:])
    if prop not in ENGINE:
        print("HARNESS-ERROR unknown property %r" % prop)
        return 2
    want = {"PYTHONHASHSEED": os.environ.get("VERIF_HASHSEED", "0")}
    if ENGINE[prop] == "K":
        want["NUMBA_DISABLE_JIT"] = "1"
    else:
        want["NUMBA_DISABLE_JIT"] = "0"
        from sim import cachedir
        want["NUMBA_CACHE_DIR"] = cachedir.numba_cache_dir()
    if any(os.environ.get(k) != v for k, v in want.items()):
        env = dict(os.environ)
        env.update(want)
        env["PYTHONDONTWRITEBYTECODE"] = "1"
        os.execve(sys.executable, [sys.executable, os.path.abspath(__file__)] + sys.argv[1:], env)
    from sim import driver
    return driver.main(sys.argv[1:])


if __name__ == "__main__":
    sys.exit(main())
