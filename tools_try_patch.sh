#!/bin/sh
# usage: tools_try_patch.sh <patch.diff> <prop> [extra check args]
# Applies a patch to a scratch copy of /repo (never to /repo itself), runs the check with VERIF_REPO, removes the copy.
P=$1; PROP=$2; shift 2
T=$(mktemp -d /tmp/verif-try-XXXXXX)
rsync -a --exclude .git --exclude __pycache__ /repo/ $T/repo/
(cd $T/repo && patch -p1 -s < "$P") || { echo "PATCH FAILED"; rm -rf $T; exit 3; }
VERIF_REPO=$T/repo VERIF_CACHE_BASE=$T/cache /verif/check $PROP --no-evidence "$@" 2>&1 | grep -E "VIOLATION|class=|HARNESS|tier=" | cut -c1-250 | head -12
rm -rf $T
