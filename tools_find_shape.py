"""usage: tools_find_shape.py <prop> <tier> <n> key=value [key=value ...]  -> run indices whose config matches (top-level or nested one level)
Pure config generation (no MCHap import); for aiming single verbose runs: ./check <prop> --index <i>"""
import json, os, random, sys
sys.path.insert(0, os.path.dirname(os.path.abspath(__file__)))
os.environ.setdefault("NUMBA_DISABLE_JIT", "1")
from sim import core, driver

def main():
    prop, tier, n = sys.argv[1], sys.argv[2], int(sys.argv[3])
    want = dict(a.split("=", 1) for a in sys.argv[4:])
    scn = driver.load_scenario(prop)
    base = int(os.environ.get("VERIF_SEED", core.DEFAULT_SEED))
    out = []
    for i in range(n):
        rs = driver.run_seed_for(base, prop, tier, i)
        cfg = scn.gen_config(random.Random(driver.H(rs, "config")), tier, i)
        flat = dict(cfg)
        for v in cfg.values():
            if isinstance(v, dict):
                flat.update(v)
        if all(str(flat.get(k)) == v for k, v in want.items()):
            out.append(i)
    print(" ".join(map(str, out)))

main()
