#!/bin/sh
# Runs every thorough check once (validation of the thorough tier; results belong to the commit it ran at).
HERE="$(cd "$(dirname "$0")" && pwd)"
for p in ${*:-C15 C02 C14 C09 C18 C01 C08 C10}; do
  start=$(date +%s)
  out=$("$HERE/check" $p --tier thorough 2>&1); rc=$?
  echo "prop=$p rc=$rc secs=$(( $(date +%s) - start )) $(echo "$out" | tail -1)"
  echo "$out" | grep -E "VIOLATION|class=|HARNESS|KNOWN" | cut -c1-300 | head -10
done
