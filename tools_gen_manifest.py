"""Regenerates MANIFEST.json from the table below (kept as code so that the
manifest is always schema-valid and consistent with what exists)."""
import json, os, sys
HERE = os.path.dirname(os.path.abspath(__file__))

BUILT = json.load(open(os.path.join(HERE, "manifest_built.json")))

NA = {
 "C03": "call-exact is RNG-free enumeration; 'GP/GL requested or not' is an option, not a schedule: a pure function of (files, options) - nothing for a simulator to schedule or fault.",
 "C04": "the read likelihood is a pure function of (reads, counts, genotype); no draw, interleaving, history, clock or fault enters the statement.",
 "C05": "the priors are closed-form functions of (ploidy, alleles, F, frequencies); checking them is enumeration of a mathematical function, not simulation.",
 "C06": "read extraction is a deterministic function of (BAM, locus, filter options); its error clause is exercised as C08's failing-locus fault but C06 itself is not claimed.",
 "C07": "record well-formedness is a function of (inputs, --report set); no nondeterminism is involved in formatting.",
 "C11": "combinatorial index arithmetic: pure function.",
 "C12": "encode/decode round trip and assemble->call composition are function composition on fixed text.",
 "C13": "ALT / REFMASKED / '.' are a function of (per-sample posteriors, threshold).",
 "C16": "filtering and frequency normalisation are functions of (record, option strings).",
 "C17": "the inheritance pmf is closed-form; summing it over genotypes is enumeration of a mathematical function.",
 "C19": "find-snvs depths are a function of (BAMs, thresholds, filter flags); the program has no multi-core path, RNG or clock dependence in its records.",
 "C20": "atomize is a text transformation of a VCF.",
}
PENDING = "claimed in DESIGN.md but its check is still under construction in this tree; not claimed until the check exists."

def main():
    checks = []
    for pid in sorted(BUILT):
        b = BUILT[pid]
        checks.append({
            "property_id": pid,
            "quick_cmd": "./check %s --tier quick" % pid,
            "thorough_cmd": "./check %s --tier thorough" % pid,
            "evidence_file": "/verif/evidence/%s.json" % pid,
            "replay_cmd_template": "./check %s --replay {path}" % pid,
            "engine": b["engine"],
            "level_claimed": {"category": "exploration", "text": b["text"], "design_ref": b["design_ref"]},
            "level_note": b["note"],
            "technique": b["technique"],
        })
    na = [{"property_id": k, "reason": v} for k, v in sorted(NA.items())]
    for pid in ["C01","C02","C08","C09","C10","C14","C15","C18"]:
        if pid not in BUILT:
            na.append({"property_id": pid, "reason": PENDING})
    na.sort(key=lambda d: d["property_id"])
    doc = {
        "version": 1,
        "setup_cmd": "sh /verif/setup.sh",
        "hooks": {
            "guard": "MCHAP_VERIF",
            "enable": "no source hook exists: every seam is a module attribute the code already resolves at call time (engine K: NUMBA_DISABLE_JIT=1 set by ./check; engine P: baseclass.mp, headermeta._date, sys.stdout). MCHAP_VERIF is reserved and unused.",
            "baseline_off_cmd": "cd /repo && /venv/bin/python -m pytest -ra -q -p no:cacheprovider --timeout=900 --continue-on-collection-errors",
            "source_commits": [],
            "add_only": True,
        },
        "engines": [
            {"name": "K", "path": "/verif/sim/engine_k.py", "serves_properties": [p for p in sorted(BUILT) if BUILT[p]["engine"]=="K"],
             "kind_free_text": "sampler simulation: MCHap's samplers executed as plain Python with every random draw, shuffle and cache factory behind a tape-driven seam; invariants checked at every executed move"},
            {"name": "P", "path": "/verif/sim/engine_p.py", "serves_properties": [p for p in sorted(BUILT) if BUILT[p]["engine"]=="P"],
             "kind_free_text": "process simulation: the real CLI layer (compiled) with multiprocessing, stdout and the clock replaced by in-process stubs whose interleaving a seeded scheduler decides at IPC points"},
        ],
        "checks": checks,
        "not_applicable": na,
        "notes": "Technique family: deterministic simulation with fault injection. See DESIGN.md (sections 7 and 10-13 for what was found, repaired and corrected). "
                 "Exit codes: 0 held, 1 violation (VIOLATION line + minimised replay file, replayed in a fresh interpreter), 2 harness error (never a violation). "
                 "Thorough tier = 15-30x the runs plus: C02/C18 compiled-kernel comparison, C02/C09 compiled call-sampler probe with 600 cases (60 already in quick), "
                 "C09 compiled DenovoMCMC cache probe with 96 cases incl. overflow of the real 2**16-node cache (12 small cases already in quick), C09/C18 compiled pedigree-sampler probe against a cache-free twin with 400 cases (40 already in quick), "
                 "C08 real-multiprocessing fidelity probe and 24-batch hash-seed re-execution (12 batches already in quick). "
                 "Five genuine defects of MCHap are repaired by fix: commits in /repo (80c34e4 223b6e9 1d6f459 8c9a2b4 e747dde); one is a listed known finding (KF-C14-1, known_findings.json). "
                 "seeded/ holds 144 independently written breaking changes with which the checks were tested (all 144 caught by the quick tier, 60 of them only after a strengthening: seeded/INDEX.md); sensitivity/ a catalogue of 38 source mutants (37 caught). "
                 "tools_soak.sh re-runs every check at many VERIF_SEED values.",
    }
    json.dump(doc, open(os.path.join(HERE, "MANIFEST.json"), "w"), indent=1)

if __name__ == "__main__":
    main()
