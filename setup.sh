#!/bin/sh
# Offline setup: nothing to build; verifies the interpreter and the repository import.
set -e
/venv/bin/python -c "import numpy, numba, pysam, scipy; print('deps ok')"
cd /tmp && NUMBA_DISABLE_JIT=1 /venv/bin/python -W ignore -c "import sys; sys.path.insert(0, '/repo'); import mchap; print('mchap', mchap.__file__)"
