import numpy as np, math, random
np.seterr(all='ignore')
exec(open('pedprobe.py').read().split("rng=random.Random(11)")[0])
rng=random.Random(4); mx=0; n=0
for inst in range(60):
    nh=rng.choice([2,3,4]); nb=3
    haps=set()
    while len(haps)<nh: haps.add(tuple(rng.randrange(2) for _ in range(nb)))
    haps=np.array(sorted(haps),dtype=np.int8)
    parents=np.array([[-1,-1],[-1,-1],[0,1],[0,1],[1,-1]]); ns=5
    ploidy=np.array([rng.choice([2,4]),rng.choice([2,4]),0,0,0]); tau=np.zeros((ns,2),dtype=np.int64)
    tau[0]=[ploidy[0]//2]*2; tau[1]=[ploidy[1]//2]*2
    for i in (2,3): tau[i]=[ploidy[0]//2,ploidy[1]//2]; ploidy[i]=tau[i].sum()
    tau[4]=[ploidy[1]//2,1]; ploidy[4]=tau[4].sum()
    lam=np.zeros((ns,2)); err=np.array([[rng.choice([0.0,0.01,0.3]) for _ in range(2)] for _ in range(ns)])
    fr=np.array([rng.random()+0.1 for _ in range(nh)]); fr/=fr.sum(); lf=np.log(fr)
    mp=int(ploidy.max()); mr=4
    sr=np.full((ns,mr,nb,2),np.nan); sc=np.zeros((ns,mr),dtype=np.int64)
    for i in range(ns):
        for r in range(mr):   # equal read numbers -> avoids the mask bug
            sc[i,r]=rng.choice([1,2])
            for j in range(nb):
                if rng.random()<0.2: continue
                a=rng.randrange(2); p=rng.choice([0.9,0.99]); sr[i,r,j,:]=(1-p)/3; sr[i,r,j,a]=p
    X=np.full((ns,mp),-1,dtype=np.int64)
    for i in range(ns): X[i,:ploidy[i]]=[rng.randrange(nh) for _ in range(ploidy[i])]
    children=pm.sample_children_matrix(parents)
    pairs,blankets=pm.parental_pair_markov_blankets(parents,children)
    z=lambda: np.zeros(mp,dtype=np.int64)
    def ljoint(X):
        tot=0.0
        for i in range(ns):
            p,q=parents[i]
            tot+=ref_llk(sr[i],sc[i],haps[X[i,:ploidy[i]]])
            tot+=trio_log_pmf(X[i],X[p],X[q],ploidy[p] if p>=0 else 0,ploidy[q] if q>=0 else 0,tau[i,0],tau[i,1],lam[i,0],lam[i,1],err[i,0] if p>=0 else 1.0,err[i,1] if q>=0 else 1.0,lf,z(),z(),z(),z(),z(),z(),z(),np.zeros(mp))
            tot-=lnperm(tuple(X[i,:ploidy[i]]))
        return tot
    def swap(X,ip,iq,u):
        seq=[ip,iq]; orig=(np.random.randint,np.random.rand)
        np.random.randint=lambda n: seq.pop(0); np.random.rand=lambda: u
        try:
            Y=X.copy(); pa,acc=pm.pair_allele_swap_step(pairs[0,0],pairs[0,1],blankets[0],Y,ploidy,parents,tau,lam,err,sr,sc,haps,lf,{},z(),z(),z(),z(),z(),z(),z(),np.zeros(mp))
        finally: np.random.randint,np.random.rand=orig
        return pa,acc,Y
    for rep in range(4):
        ip=rng.randrange(ploidy[0]); iq=rng.randrange(ploidy[1])
        pa,acc,Y=swap(X,ip,iq,-1.0)   # u=-1 forces accept
        if math.isnan(pa) or ljoint(X)==-math.inf: continue
        pb,_,Z=swap(Y,ip,iq,-1.0)
        assert (Z==X).all()
        if pa==0 or pb==0:
            assert ljoint(Y)==-math.inf or ljoint(X)==-math.inf, (pa,pb); continue
        d=abs(ljoint(X)+math.log(pa)-ljoint(Y)-math.log(pb)); mx=max(mx,d); n+=1
        if d>1e-8: print("SWAP DEV",d,ploidy.tolist(),X.tolist(),ip,iq,pa,pb)
print("swap max log-DB dev",mx,"n",n, "pairs",pairs.tolist(),"blankets",blankets.tolist())
