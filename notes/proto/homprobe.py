import numpy as np, math, random, itertools
from collections import Counter
from mchap.assemble.mcmc import _homozygosity_probabilities
rng=random.Random(2); mx=0
def lprior(g,n,F):
    d=Counter(g); k=len(g)
    if F==0: return math.lgamma(k+1)-sum(math.lgamma(c+1) for c in d.values())-k*math.log(n)
    a=(1-F)/F/n; A=a*n
    return math.lgamma(k+1)+math.lgamma(A)-math.lgamma(k+A)+sum(math.lgamma(c+a)-math.lgamma(c+1)-math.lgamma(a) for c in d.values())
for inst in range(200):
    ploidy=rng.choice([1,2,3,4,6]); nb=rng.choice([1,2,4]); nall=np.array([rng.choice([2,3,4]) for _ in range(nb)],dtype=np.int8)
    nr=rng.choice([0,1,5,20]); reads=np.zeros((nr,nb,int(nall.max())))
    for r in range(nr):
        for j in range(nb):
            if rng.random()<0.2: reads[r,j,:]=np.nan; continue
            a=rng.randrange(nall[j]) if rng.random()<0.3 else 0
            p=rng.choice([0.9,0.99,0.999]); reads[r,j,:nall[j]]=(1-p)/3; reads[r,j,a]=p
    counts=np.array([rng.choice([1,2,5]) for _ in range(nr)],dtype=np.int64) if rng.random()<0.5 else None
    F=rng.choice([0.0,0.1,0.5])
    got=_homozygosity_probabilities(reads,nall,ploidy,inbreeding=F,read_counts=counts)
    for j in range(nb):
        gs=list(itertools.combinations_with_replacement(range(nall[j]),ploidy)); lj=[]
        for g in gs:
            l=lprior(g,int(nall[j]),F)
            for r in range(nr):
                v=[reads[r,j,a] for a in g]
                pr=1.0 if math.isnan(v[0]) else sum(v)/ploidy
                l+=(counts[r] if counts is not None else 1)*math.log(pr)
            lj.append(l)
        lj=np.array(lj); p=np.exp(lj-lj.max()); p/=p.sum()
        for a in range(nall[j]):
            ref=p[gs.index(tuple([a]*ploidy))]
            mx=max(mx,abs(ref-got[j,a]))
print("max abs diff hom prob", mx)
