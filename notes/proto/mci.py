import numpy as np
from mchap.assemble.classes import GenotypeMultiTrace
from mchap.calling.classes import GenotypeAllelesMultiTrace
H=np.array([[0,0],[0,1],[1,0]],dtype=np.int8)
gA=H[[0,0,1,1]]; gB=H[[0,0,2,2]]   # supports {A,B} and {A,C}: 3 distinct alleles <= ploidy 4
t=GenotypeMultiTrace(np.array([[gA]*10,[gB]*10]), np.ones((2,10)))
print("assemble MCI:", t.replicate_incongruence(0.6))
t2=GenotypeAllelesMultiTrace(np.array([[[0,0,1,1]]*10,[[0,0,2,2]]*10]), np.ones((2,10)), 3)
print("calling MCI:", t2.replicate_incongruence(0.6))
