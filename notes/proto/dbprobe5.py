import mchap.assemble.structural as _s
_o=_s.dosage_step_n_options
_s.dosage_step_n_options=lambda l: max(1,_o(l)-1) if _o(l)>2 else _o(l)
import os, math, itertools, random
import numpy as np
np.seterr(all='ignore')
from collections import Counter
from mchap.assemble import mutation, structural
from mchap.jitutils import structural_change

def ref_llk(reads, counts, g):
    tot=0.0
    for r in range(len(reads)):
        pr=0.0
        for h in range(len(g)):
            p=1.0
            for j in range(g.shape[1]):
                v=reads[r,j,g[h,j]]
                if not math.isnan(v): p*=v
            pr+=p/len(g)
        tot+= (counts[r] if counts is not None else 1)*math.log(pr)
    return tot
def dosage(g): return sorted(Counter(map(bytes, np.asarray(g,dtype=np.int8))).values())
def ref_lprior(g, n_haps, F):
    d=dosage(g); n=len(g)
    if F==0:
        return math.lgamma(n+1)-sum(math.lgamma(x+1) for x in d) - n*math.log(n_haps)
    a=(1-F)/F/n_haps; A=a*n_haps
    return math.lgamma(n+1)+math.lgamma(A)-math.lgamma(n+A)+sum(math.lgamma(x+a)-math.lgamma(x+1)-math.lgamma(a) for x in d)
def lnperm(g):
    d=dosage(g); return math.lgamma(len(g)+1)-sum(math.lgamma(x+1) for x in d)
def key(g): return tuple(sorted(map(bytes,np.asarray(g,dtype=np.int8))))

class Probe:
    def __init__(self): self.p=None
    def __call__(self,p): self.p=np.array(p); return self.ret(p)

def probe_base(g,reads,counts,h,j,nall,luh,F,T):
    g=g.copy(); pr=Probe(); cur=int(g[h,j]); pr.ret=lambda p:cur
    old=mutation.random_choice; mutation.random_choice=pr
    try: mutation.base_step(g,reads,ref_llk(reads,counts,g),h,j,nall,luh,F,T,counts,None)
    finally: mutation.random_choice=old
    return pr.p
def probe_interval(g,reads,counts,interval,stype,luh,F,T):
    g=g.copy(); pr=Probe(); pr.ret=lambda p:len(p)-1
    labels=structural.haplotype_segment_labels(g,interval)
    opts=structural.recombination_step_options(labels) if stype==0 else structural.dosage_step_options(labels)
    old=structural.random_choice; structural.random_choice=pr
    try: structural.interval_step(g,reads,ref_llk(reads,counts,g),luh,F,interval,stype,T,counts,None)
    finally: structural.random_choice=old
    out=[]
    for i in range(len(opts)):
        y=g.copy(); structural_change(y,opts[i,:,0],interval); out.append((y,pr.p[i]))
    return out, (pr.p[-1] if pr.p is not None else 1.0)

rng=random.Random(5); maxdev=0; nchk=0
for inst in range(60):
    ploidy=rng.choice([2,3,4,5]); nb=rng.choice([2,3,4]); nall=np.array([rng.choice([2,2,3,4]) for _ in range(nb)],dtype=np.int8)
    nr=rng.choice([1,3,6]); reads=np.zeros((nr,nb,int(nall.max())))
    for r in range(nr):
        for j in range(nb):
            if rng.random()<0.2: reads[r,j,:]=np.nan; continue
            a=rng.randrange(nall[j]); p=rng.choice([0.9,0.99,0.7]); reads[r,j,:nall[j]]=(1-p)/3; reads[r,j,a]=p
    counts=np.array([rng.choice([1,1,2,5]) for _ in range(nr)]) if rng.random()<0.5 else None
    F=rng.choice([0,0,0.1,0.5,0.9]); T=rng.choice([1.0,1.0,0.5,0.1,0.01])
    luh=float(np.log(nall).sum()); nh=math.exp(luh)
    # random state with duplicates
    base=[ [rng.randrange(nall[j]) for j in range(nb)] for _ in range(rng.choice([1,2,ploidy]))]
    g=np.array([rng.choice(base) for _ in range(ploidy)],dtype=np.int8)
    lpi=lambda x: T*(ref_llk(reads,counts,x)+ref_lprior(x,nh,F))
    # mutation DB (ordered target)
    for h in range(ploidy):
        for j in range(nb):
            px=probe_base(g,reads,counts,h,j,nall[j],luh,F,T)
            assert abs(px.sum()-1)<1e-9 and (px>=-1e-12).all()
            for a in range(nall[j]):
                if a==g[h,j]: continue
                y=g.copy(); y[h,j]=a
                py=probe_base(y,reads,counts,h,j,nall[j],luh,F,T)
                lhs=lpi(g)-lnperm(g)+math.log(px[a]); rhs=lpi(y)-lnperm(y)+math.log(py[g[h,j]])
                maxdev=max(maxdev,abs(lhs-rhs)); nchk+=1
    # structural DB (unordered target)
    for stype in (0,1):
        for a,b in [(0,nb),(0,1),(1,nb)] :
            if a>=b: continue
            iv=np.array([a,b])
            ox,stay=probe_interval(g,reads,counts,iv,stype,luh,F,T)
            agg=Counter()
            for y,p in ox: agg[key(y)]+=p
            assert len(agg)==len(ox), "duplicate options"
            assert key(g) not in agg
            for y,p in ox:
                oy,_=probe_interval(y,reads,counts,iv,stype,luh,F,T)
                back=sum(q for z,q in oy if key(z)==key(g))
                assert back>0, ("no return", stype, iv, g, y)
                lhs=lpi(g)+math.log(p); rhs=lpi(y)+math.log(back)
                maxdev=max(maxdev,abs(lhs-rhs)); nchk+=1
print("checks",nchk,"max |log-DB deviation|",maxdev)
