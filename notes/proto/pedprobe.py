import numpy as np, math, random
from collections import Counter
from mchap.pedigree import mcmc as pm
from mchap.pedigree.prior import trio_log_pmf
def ref_llk(reads, counts, haps):
    tot=0.0
    for r in range(len(reads)):
        if counts[r]<=0: continue
        pr=0.0
        for h in haps:
            p=1.0
            for j,a in enumerate(h):
                v=reads[r,j,a]
                if not math.isnan(v): p*=v
            pr+=p/len(haps)
        tot+=counts[r]*math.log(pr)
    return tot
def lnperm(g):
    d=Counter(g); return math.lgamma(len(g)+1)-sum(math.lgamma(c+1) for c in d.values())
rng=random.Random(11); mg=0; mm=0; ms=0; n=0
for inst in range(40):
    nh=rng.choice([2,3,4]); nb=3
    haps=set()
    while len(haps)<nh: haps.add(tuple(rng.randrange(2) for _ in range(nb)))
    haps=np.array(sorted(haps),dtype=np.int8)
    # pedigree: 0,1 founders; 2 = 0x1 ; 3 = 0x1 or 0x? ; 4 = 2x3 or selfing of 2
    kind=rng.choice(['trio','halfsib','self','multigen'])
    parents={'trio':[[-1,-1],[-1,-1],[0,1]],'halfsib':[[-1,-1],[-1,-1],[0,1],[0,-1]],'self':[[-1,-1],[0,0],[1,-1]],'multigen':[[-1,-1],[-1,-1],[0,1],[0,1],[2,3]]}[kind]
    parents=np.array(parents); ns=len(parents)
    ploidy=np.array([rng.choice([2,4]) if (parents[i]<0).all() else 0 for i in range(ns)])
    tau=np.zeros((ns,2),dtype=np.int64)
    for i in range(ns):
        if ploidy[i]==0:
            for j in range(2):
                p=parents[i,j]; tau[i,j]= (ploidy[p]//2) if p>=0 else rng.choice([1,2])
            ploidy[i]=tau[i].sum()
        else:
            tau[i]=[ploidy[i]//2,ploidy[i]-ploidy[i]//2]
    lam=np.zeros((ns,2))
    for i in range(ns):
        for j in range(2):
            if tau[i,j]==2 and rng.random()<0.4: lam[i,j]=rng.choice([0.1,0.3])
    err=np.array([[rng.choice([0.0,0.01,0.3,1.0]) for _ in range(2)] for _ in range(ns)])
    fr=np.array([rng.random()+0.1 for _ in range(nh)]); fr/=fr.sum(); lf=np.log(fr)
    mp=int(ploidy.max())
    nreads=[rng.choice([1,3,6]) for _ in range(ns)]; mr=max(nreads)
    sr=np.full((ns,mr,nb,2),np.nan); sc=np.zeros((ns,mr),dtype=np.int64)
    for i in range(ns):
        for r in range(nreads[i]):
            sc[i,r]=rng.choice([1,2])
            for j in range(nb):
                if rng.random()<0.2: continue
                a=rng.randrange(2); p=rng.choice([0.9,0.99]); sr[i,r,j,:]=(1-p)/3; sr[i,r,j,a]=p
    X=np.full((ns,mp),-1,dtype=np.int64)
    for i in range(ns): X[i,:ploidy[i]]=[rng.randrange(nh) for _ in range(ploidy[i])]
    children=pm.sample_children_matrix(parents)
    z=lambda: np.zeros(mp,dtype=np.int64)
    def ljoint(X):
        tot=0.0
        for i in range(ns):
            p,q=parents[i]
            tot+=ref_llk(sr[i],sc[i],haps[X[i,:ploidy[i]]])
            tot+=trio_log_pmf(X[i],X[p],X[q],ploidy[p] if p>=0 else 0,ploidy[q] if q>=0 else 0,tau[i,0],tau[i,1],lam[i,0],lam[i,1],err[i,0] if p>=0 else 1.0,err[i,1] if q>=0 else 1.0,lf,z(),z(),z(),z(),z(),z(),z(),np.zeros(mp))
            tot-=lnperm(tuple(X[i,:ploidy[i]]))
        return tot
    for rep in range(3):
        t=rng.randrange(ns); k=rng.randrange(ploidy[t])
        args=(X.copy(),ploidy,parents,children,tau,lam,err,sr,sc,haps,lf,None,z(),z(),z(),z(),z(),z(),z(),np.zeros(mp))
        pg=pm.gibbs_probabilities(t,k,*args)
        cond=[]
        for a in range(nh):
            Y=X.copy(); Y[t,k]=a; cond.append(ljoint(Y))
        cond=np.array(cond); cond=np.exp(cond-cond.max()); cond/=cond.sum()
        d=np.abs(pg-cond).max(); mg=max(mg,d)
        if d>1e-8: print("GIBBS DEV",kind,d,"target",t,k,ploidy.tolist(),tau.tolist(),lam.tolist(),err.tolist(),X.tolist(),pg,cond)
        pmh=pm.metropolis_hastings_probabilities(t,k,*args)
        for a in range(nh):
            if a==X[t,k] or pmh[a]==0: continue
            Y=X.copy(); Y[t,k]=a
            pb=pm.metropolis_hastings_probabilities(t,k,Y.copy(),*args[1:])
            if pb[X[t,k]]==0: continue
            d=abs(ljoint(X)+math.log(pmh[a])-ljoint(Y)-math.log(pb[X[t,k]])); mm=max(mm,d); n+=1
            if d>1e-8: print("MH DEV",kind,d)
print("gibbs max",mg,"mh max",mm,"n",n)
