import sys, io, pathlib, hashlib
from mchap.application import assemble, call_pedigree
path = pathlib.Path("/repo/mchap/tests/test_io/data")
BAMS=[str(path/f"simple.sample{i}.bam") for i in (1,2,3)]
cmd=["mchap","assemble","--bam"]+BAMS+["--ploidy","4","--targets",str(path/"simple.bed.gz"),"--variants",str(path/"simple.vcf.gz"),"--reference",str(path/"simple.fasta"),"--mcmc-steps","300","--mcmc-burn","100","--mcmc-seed","11","--report","AFP","GP","SNVDP","AOP","ACP"]
p=assemble.program.cli(cmd); out=io.StringIO(); so=sys.stdout; sys.stdout=out
p.run_stdout(); sys.stdout=so
body="\n".join(l for l in out.getvalue().splitlines() if not l.startswith("##commandline") and not l.startswith("##fileDate"))
print(hashlib.sha1(body.encode()).hexdigest())
