import numpy as np, math, random, itertools
from collections import Counter
from mchap.calling.mcmc import gibbs_options, mh_options
from mchap.calling.exact import genotype_likelihoods, genotype_posteriors
def ref_llk(reads, counts, haps):
    tot=0.0
    for r in range(len(reads)):
        pr=0.0
        for h in haps:
            p=1.0
            for j,a in enumerate(h):
                v=reads[r,j,a]
                if not math.isnan(v): p*=v
            pr+=p/len(haps)
        tot+=counts[r]*math.log(pr)
    return tot
def ref_lprior_unordered(g, freqs, F):
    n=len(g); d=Counter(g)
    lperm=math.lgamma(n+1)-sum(math.lgamma(c+1) for c in d.values())
    if F==0: return lperm+sum(c*math.log(freqs[a]) for a,c in d.items())
    al=[f*(1-F)/F for f in freqs]; A=sum(al)
    return math.lgamma(n+1)+math.lgamma(A)-math.lgamma(n+A)+sum(math.lgamma(c+al[a])-math.lgamma(c+1)-math.lgamma(al[a]) for a,c in d.items())
def lnperm(g):
    d=Counter(g); return math.lgamma(len(g)+1)-sum(math.lgamma(c+1) for c in d.values())
rng=random.Random(3); mg=0; mm=0; mex=0; n=0
for inst in range(80):
    ploidy=rng.choice([2,3,4,6]); nb=rng.choice([2,3,4]); nh=rng.choice([2,3,4,5])
    haps=set()
    while len(haps)<nh: haps.add(tuple(rng.randrange(2) for _ in range(nb+1)))
    haps=np.array(sorted(haps),dtype=np.int8); nb=haps.shape[1]
    nr=rng.choice([1,4,7]); reads=np.zeros((nr,nb,2))
    for r in range(nr):
        for j in range(nb):
            if rng.random()<0.2: reads[r,j,:]=np.nan; continue
            a=rng.randrange(2); p=rng.choice([0.9,0.99,0.7]); reads[r,j,:]=(1-p)/3; reads[r,j,a]=p
    counts=np.array([rng.choice([1,1,2,5]) for _ in range(nr)],dtype=np.int64)
    F=rng.choice([0.0,0.0,0.1,0.5,0.9])
    if rng.random()<0.5: freqs=None; fr=[1/nh]*nh
    else:
        fr=np.array([rng.random()+0.05 for _ in range(nh)]); fr/=fr.sum(); freqs=fr
    lord=lambda g: ref_llk(reads,counts,haps[list(g)])+ref_lprior_unordered(tuple(sorted(g)),fr,F)-lnperm(g)
    # exact cross-check
    allg=list(itertools.combinations_with_replacement(range(nh),ploidy))
    lj=np.array([ref_llk(reads,counts,haps[list(g)])+ref_lprior_unordered(g,fr,F) for g in allg]); post=np.exp(lj-lj.max()); post/=post.sum()
    # VCF order: sort by reversed tuple
    order=sorted(range(len(allg)), key=lambda i: tuple(reversed(allg[i])))
    ll=genotype_likelihoods(reads,ploidy,haps,read_counts=counts)
    ex=genotype_posteriors(ll.astype(np.float64),ploidy,nh,F,freqs)
    mex=max(mex,np.abs(ex-post[order]).max())
    for rep in range(4):
        g=np.array(sorted(rng.randrange(nh) for _ in range(ploidy)),dtype=np.int64); k=rng.randrange(ploidy)
        llks=np.empty(nh); lp=np.empty(nh); pr=np.empty(nh)
        gibbs_options(g.copy(),k,haps,reads,counts,F,llks,lp,pr,freqs,None)
        cond=np.array([lord(tuple(g[:k])+(a,)+tuple(g[k+1:])) for a in range(nh)]); cond=np.exp(cond-cond.max()); cond/=cond.sum()
        mg=max(mg,np.abs(pr-cond).max())
        mh_options(g.copy(),k,haps,reads,counts,F,llks,lp,pr,freqs,None)
        for a in range(nh):
            if a==g[k]: continue
            y=g.copy(); y[k]=a; pr2=np.empty(nh)
            mh_options(y.copy(),k,haps,reads,counts,F,llks,lp,pr2,freqs,None)
            mm=max(mm,abs(lord(tuple(g))+math.log(pr[a])-lord(tuple(y))-math.log(pr2[g[k]]))); n+=1
print("gibbs max abs diff",mg,"mh max log-DB dev",mm,"exact vs ref",mex,"n",n)
