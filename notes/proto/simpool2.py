"""Prototype 2: failing locus, SimStdout with per-process buffers, cleanup, numba per-thread RNG init."""
import threading, random, sys, io, pathlib, time
from simpool import Sched, Task, SimMP, cur, Killed
from mchap.application import assemble, baseclass
from mchap.jitutils import seed_numba

class SimStdout:
    def __init__(self, s): self.s=s; self.file=[]; self.buf={}
    def _b(self): return self.buf.setdefault(cur(self.s).name, [])
    def write(self, x):
        t=cur(self.s); self.s.yield_(t,'write'); self._b().append(x); return len(x)
    def flush(self):
        t=cur(self.s); self.s.yield_(t,'flush'); b=self._b(); self.file.extend(b); b.clear()
    def value(self):
        for b in self.buf.values(): self.file.extend(b); b.clear()
        return "".join(self.file)

path = pathlib.Path("/repo/mchap/tests/test_io/data")
BAMS=[str(path/f"simple.sample{i}.bam") for i in (1,2,3)]
def cmd(cores): return ["mchap","assemble","--bam"]+BAMS+["--ploidy","4","--targets",str(path/"simple.bed.gz"),"--variants",str(path/"simple.vcf.gz"),"--reference",str(path/"simple.fasta"),"--mcmc-steps","300","--mcmc-burn","100","--mcmc-seed","11","--cores",str(cores)]
orig=assemble.program.call_locus
BAD=[None]
def call_locus(self, locus, sample_bams):
    seed_numba(random.randrange(2**31))   # stand-in for 'process starts with arbitrary RNG state'
    if locus.name==BAD[0]: raise RuntimeError("injected failure at "+locus.name)
    return orig(self, locus, sample_bams)
assemble.program.call_locus=call_locus

def run(seed, cores, bad):
    BAD[0]=bad
    s=Sched(seed); s.main=Task(s,'main',None); s.main.state='running'; s.tasks.append(s.main)
    baseclass.mp=SimMP(s); so=sys.stdout; out=SimStdout(s); sys.stdout=out
    err=None
    try: assemble.program.cli(cmd(cores)).run_stdout()
    except BaseException as e: err=e
    finally: sys.stdout=so
    s.killed=True
    for t in s.tasks:
        if t is not s.main and t.state!='done': t.ev.set()
    for t in s.tasks:
        if t is not s.main: t.th.join(2)
    alive=[t.name for t in s.tasks if t is not s.main and t.th.is_alive()]
    recs=[l.split("\t")[2] for l in out.value().splitlines() if l and not l.startswith("#")]
    return err, recs, alive, len(s.log)

base=None
for seed in range(6):
    for cores in (2,3,5):
        err,recs,alive,n=run(seed,cores,None)
        assert err is None and sorted(recs)==['CHR1_05_25','CHR1_30_50','CHR2_10_30','CHR3_20_40'] and not alive,(err,recs,alive)
for seed in range(6):
    for bad in ('CHR1_05_25','CHR2_10_30','CHR3_20_40'):
        err,recs,alive,n=run(seed,3,bad)
        print(seed,bad,type(err).__name__,recs,alive,n)
        assert err is not None and bad not in recs and len(set(recs))==len(recs)
print("threads now:", threading.active_count())
