import numpy as np, numba
from mchap.assemble.mcmc import DenovoMCMC
from mchap.calling.classes import CallingMCMC
from mchap.testing import simulate_reads
@numba.njit
def burn(n):
    s=0.0
    for i in range(n): s+=np.random.rand()
    return s
np.random.seed(1)
haps=np.array([[0,0,0,0],[0,1,1,0],[1,1,0,1],[1,1,0,0]],dtype=np.int8)
reads=simulate_reads(haps,n_alleles=[2,2,2,2],n_reads=10)
m=DenovoMCMC(ploidy=4,n_alleles=[2,2,2,2],steps=300,chains=2,random_seed=7,temperatures=(0.2,1.0))
c=CallingMCMC(ploidy=4,haplotypes=haps,steps=300,chains=2,random_seed=7)
a0=m.fit(reads); b0=c.fit(reads,read_counts=np.ones(10,dtype=np.int64))
burn(1234); np.random.rand(77)
m2=DenovoMCMC(ploidy=2,n_alleles=[2,2,2,2],steps=50,chains=1,random_seed=99); m2.fit(reads[:3])
a1=m.fit(reads); burn(5); b1=c.fit(reads,read_counts=np.ones(10,dtype=np.int64))
print("assemble repeat equal:", (a0.genotypes==a1.genotypes).all() and (a0.llks==a1.llks).all())
print("call repeat equal:", (b0.genotypes==b1.genotypes).all())
