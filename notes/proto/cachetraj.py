import numpy as np, time
from mchap.assemble.mcmc import DenovoMCMC
from mchap.assemble.likelihood import log_likelihood
from mchap.testing import simulate_reads
np.random.seed(1)
haps=np.array([[0,0,0,0,0,0],[0,1,1,0,1,0],[1,1,0,1,0,2],[1,1,0,0,0,1]],dtype=np.int8)
na=[2,2,2,2,2,3]
reads=simulate_reads(haps,n_alleles=na,n_reads=12)
outs=[]
for thr in (-1,0,100,10**7):
    m=DenovoMCMC(ploidy=4,n_alleles=na,steps=600,chains=2,random_seed=7,fix_homozygous=1.1,temperatures=(0.05,0.3,1.0),llk_cache_threshold=thr,inbreeding=0.2)
    t0=time.time(); tr=m.fit(reads); outs.append(tr); print(thr, round(time.time()-t0,2))
for o in outs[1:]:
    print("geno equal", (o.genotypes==outs[0].genotypes).all(), "llk maxdiff", np.abs(o.llks-outs[0].llks).max())
tr=outs[1]
mx=0
for c in range(2):
    for i in range(0,600,7):
        mx=max(mx,abs(tr.llks[c,i]-log_likelihood(reads,tr.genotypes[c,i])))
print("carried vs recomputed", mx)
