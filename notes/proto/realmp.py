import sys, pathlib
from mchap.application import assemble
path = pathlib.Path("/repo/mchap/tests/test_io/data")
BAMS=[str(path/f"simple.sample{i}.bam") for i in (1,2,3)]
cmd=["mchap","assemble","--bam"]+BAMS+["--ploidy","4","--targets",str(path/"simple.bed.gz"),"--variants",str(path/"simple.vcf.gz"),"--reference",str(path/"simple.fasta"),"--mcmc-steps","300","--mcmc-burn","100","--mcmc-seed","11","--cores",sys.argv[1]]
orig=assemble.program.call_locus
bad=sys.argv[2]
def call_locus(self, locus, sample_bams):
    if locus.name==bad: raise RuntimeError("injected failure at "+bad)
    return orig(self, locus, sample_bams)
assemble.program.call_locus=call_locus
assemble.program.cli(cmd).run_stdout()
