import numpy as np, numba, math
@numba.njit
def f(n): return np.log(n).sum()
n=np.array([3,3,3],dtype=np.int8)
print("jit", repr(f(n)), "py", repr(f.py_func(n)), type(f.py_func(n)), "exact", 3*math.log(3))
n=np.array([2,4,3,2,2],dtype=np.int8)
print("jit", repr(f(n)), "py", repr(f.py_func(n)), "exact", math.log(2*4*3*2*2))
