import numpy as np, random, math
from mchap.assemble import arraymap
rng=random.Random(1); bad=0; flushes=0; grows=0; ops=0
for inst in range(300):
    L=rng.choice([1,2,4,6,12]); B=rng.choice([2,3,4]); k0=rng.choice([2,3,4,8,64]); kmax=k0*rng.choice([1,2,4,8])
    m=arraymap.new(L,B,initial_size=k0,max_size=kmax); model={}
    for op in range(rng.choice([5,30,120])):
        key=np.array([rng.randrange(B) for _ in range(L)],dtype=np.int8); ops+=1
        if rng.random()<0.5:
            v=rng.random()
            before=len(m[0]),len(m[1])
            m2=arraymap.set(m,key,v,empty_if_full=True)
            if m2[3]==1 and m2[4]==0 and (m[3]!=1 or m[4]!=0 or True) and np.isnan(arraymap.get(m2,key)):
                # flushed (value not stored)
                if len(model)>0 or True: flushes+=1
                model={}
            else:
                model[tuple(key)]=v
            if (len(m2[0]),len(m2[1]))!=before: grows+=1
            m=m2
        else:
            got=arraymap.get(m,key); exp=model.get(tuple(key),math.nan)
            if not ((math.isnan(got) and math.isnan(exp)) or got==exp): bad+=1; print("MISMATCH",L,B,k0,kmax,key,got,exp)
print("ops",ops,"bad",bad,"flushes",flushes,"grows",grows)
