import numpy as np, math, itertools
from collections import Counter
from mchap.pedigree import mcmc as pm
haps=np.array([[0,0],[0,1],[1,0]],dtype=np.int8); nh=3
P=[0,0,1,2]; Q=[1,2]
# brute force unordered child distribution
dist=Counter()
for gp in itertools.combinations(range(4),2):
    for gq in range(2):
        child=tuple(sorted([P[gp[0]],P[gp[1]],Q[gq]])); dist[child]+=1/(6*2)
def nperm(g):
    d=Counter(g); return math.factorial(len(g))/np.prod([math.factorial(c) for c in d.values()])
parents=np.array([[-1,-1],[-1,-1],[0,1]]); ploidy=np.array([4,2,3]); tau=np.array([[2,2],[1,1],[2,1]])
lam=np.zeros((3,2)); err=np.zeros((3,2)); lf=np.log(np.full(3,1/3))
sr=np.full((3,1,2,2),np.nan); sc=np.ones((3,1),dtype=np.int64)
children=pm.sample_children_matrix(parents); z=lambda: np.zeros(4,dtype=np.int64)
for child in [[0,1,0],[0,0,1],[2,0,1],[0,2,2]]:
    X=np.array([P,[1,2,-1,-1],child+[-1]])
    for k in range(3):
        pg=pm.gibbs_probabilities(2,k,X.copy(),ploidy,parents,children,tau,lam,err,sr,sc,haps,lf,None,z(),z(),z(),z(),z(),z(),z(),np.zeros(4))
        truth=[]
        for a in range(nh):
            c=list(child); c[k]=a; g=tuple(sorted(c)); truth.append(dist.get(g,0)/nperm(g))
        truth=np.array(truth); truth/=truth.sum()
        print(child,k,"code",np.round(pg,4),"brute",np.round(truth,4))
