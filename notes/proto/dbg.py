import numpy as np, math
np.seterr(all='ignore')
exec(open('dbprobe.py').read().split("rng=random.Random(5)")[0])
from mchap.assemble.prior import log_genotype_prior
from mchap.jitutils import get_haplotype_dosage
nall=np.array([3,3,3],dtype=np.int8); F=0.9; luh=float(np.log(nall).sum())
for g in ([[2,0,2],[2,2,2],[1,1,1],[2,0,2],[2,2,2]], [[2,0,2],[1,2,2],[2,1,1],[2,0,2],[2,2,2]], [[2,2,2]]*5, [[0,0,0],[0,0,1],[0,1,0],[1,0,0],[2,2,2]]):
    g=np.array(g,dtype=np.int8)
    d=np.empty(5,dtype=np.int8); get_haplotype_dosage(d,g)
    print(d, log_genotype_prior(d,luh,F), ref_lprior(g,27,F), log_genotype_prior(d,luh,F)-ref_lprior(g,27,F))
