"""Prototype: deterministic baton-passing scheduler replacing multiprocessing in mchap baseclass."""
import threading, random, sys, io

class Killed(BaseException): pass

class Sched:
    def __init__(self, seed):
        self.rng = random.Random(seed)
        self.tasks = []           # all sim tasks (incl. main)
        self.cur = None
        self.log = []
        self.lock = threading.Lock()
        self.killed = False
    def new_task(self, name, fn):
        t = Task(self, name, fn); self.tasks.append(t); return t
    def runnable(self):
        return [t for t in self.tasks if t.state == 'ready' or (t.state=='blocked' and t.cond())]
    def yield_(self, me, why, cond=None):
        """Called by task `me` at a sync point. Picks next task to run."""
        self.log.append((me.name, why))
        if cond is not None and not cond():
            me.state = 'blocked'; me.cond = cond
        else:
            me.state = 'ready'
        self.switch(me)
    def switch(self, me):
        cands = self.runnable()
        if not cands:
            raise RuntimeError("deadlock: " + str([(t.name,t.state) for t in self.tasks]))
        nxt = self.rng.choice(cands)
        nxt.state = 'running'
        if nxt is me:
            return
        nxt.ev.set()
        if me is not None and me.state != 'done':
            me.ev.wait(); me.ev.clear()
            if self.killed and me.name != 'main': raise Killed()

class Task:
    def __init__(self, sched, name, fn):
        self.s = sched; self.name = name; self.fn = fn
        self.state = 'ready'; self.cond = None
        self.ev = threading.Event(); self.exc = None; self.result = None
        if fn is not None:
            self.th = threading.Thread(target=self._run, daemon=True); self.th.start()
    def _run(self):
        self.ev.wait(); self.ev.clear()
        try:
            if self.s.killed: raise Killed()
            self.result = self.fn()
        except Killed:
            self.state='done'; return
        except BaseException as e:
            self.exc = e
        self.state = 'done'
        self.s.log.append((self.name, 'exit' if self.exc is None else 'raise'))
        self.s.switch(self)

_local = threading.local()
def me(): return _local.task

class SimQueue:
    def __init__(self, s): self.s=s; self.items=[]
    def put(self, x):
        t=cur(self.s); self.s.yield_(t,'put:pre'); self.items.append(x); self.s.yield_(t,'put:post')
    def get(self):
        t=cur(self.s); self.s.yield_(t,'get', cond=lambda: len(self.items)>0); return self.items.pop(0)

def cur(s):
    th = threading.current_thread()
    for t in s.tasks:
        if getattr(t,'th',None) is th: return t
    return s.main

class SimResult:
    def __init__(self, s, task): self.s=s; self.task=task
    def get(self):
        t=cur(self.s); self.s.yield_(t,'job.get', cond=lambda: self.task.state=='done')
        if self.task.exc is not None: raise self.task.exc
        return self.task.result

class SimPool:
    def __init__(self, s, n): self.s=s; self.n=n; self.jobs=[]
    def apply_async(self, fn, args=()):
        task = self.s.new_task(f"w{len(self.jobs)}", lambda: fn(*args)); self.jobs.append(task)
        return SimResult(self.s, task)
    def close(self): pass
    def join(self):
        t=cur(self.s); self.s.yield_(t,'join', cond=lambda: all(j.state=='done' for j in self.jobs))

class SimMP:
    def __init__(self, s): self.s=s
    def Manager(self): return self
    def Queue(self): return SimQueue(self.s)
    def Pool(self, n): return SimPool(self.s, n)

if __name__ == "__main__":
    import pathlib, time
    from mchap.application import assemble, baseclass
    path = pathlib.Path("/repo/mchap/tests/test_io/data")
    BAMS=[str(path/f"simple.sample{i}.bam") for i in (1,2,3)]
    cmd=["mchap","assemble","--bam"]+BAMS+["--ploidy","4","--targets",str(path/"simple.bed.gz"),"--variants",str(path/"simple.vcf.gz"),"--reference",str(path/"simple.fasta"),"--mcmc-steps","300","--mcmc-burn","100","--mcmc-seed","11","--cores","3"]
    outs=[]
    for seed in [1,2,3,1]:
        s=Sched(seed); s.main=Task(s,'main',None); s.main.state='running'; s.tasks.append(s.main)
        baseclass.mp = SimMP(s)
        p=assemble.program.cli(cmd)
        out=io.StringIO(); so=sys.stdout; sys.stdout=out
        t0=time.time()
        try: p.run_stdout()
        finally: sys.stdout=so
        s.killed=True
        recs=[l.split("\t")[2] for l in out.getvalue().splitlines() if not l.startswith("#")]
        print(seed, round(time.time()-t0,2), recs, len(s.log), file=sys.stderr)
        outs.append((out.getvalue(), tuple(s.log)))
    print("same seed same log+out:", outs[0]==outs[3], "diff seeds differ in order:", outs[0][1]!=outs[1][1], file=sys.stderr)
    print("sorted equal:", sorted(outs[0][0].splitlines())==sorted(outs[1][0].splitlines()), file=sys.stderr)
