"""Pedigree-sampler workload under engine K (C18, C09, C14)."""
import math
import random as _random

from . import refmodel as ref
from .core import HarnessError, Violation
from .engine_k import Seams, SimRandom, bind, bootstrap, rel_close

TOL_LOG = 1e-8
TOL_P = 1e-9
UNDERFLOW = -690.0
TINY = 1e-300  # below this a double is (nearly) denormal: treated like an underflowed zero

TOPOLOGIES = {
    # name: list of (parent_p, parent_q) with -1 unknown
    "founders": [(-1, -1), (-1, -1)],
    "duo": [(-1, -1), (0, -1)],
    "duo_q": [(-1, -1), (-1, 0)],
    "trio": [(-1, -1), (-1, -1), (0, 1)],
    "trio_rev": [(-1, -1), (-1, -1), (1, 0)],
    "halfsib": [(-1, -1), (-1, -1), (0, 1), (0, -1)],
    "fullsibs": [(-1, -1), (-1, -1), (0, 1), (0, 1)],
    "self": [(-1, -1), (0, 0)],
    "self_duo": [(-1, -1), (0, 0), (1, -1)],
    "multigen": [(-1, -1), (-1, -1), (0, 1), (0, 1), (2, 3)],
    "backcross": [(-1, -1), (-1, -1), (0, 1), (2, 0)],
    "three_founders": [(-1, -1), (-1, -1), (-1, -1), (0, 1), (1, 2), (3, 4)],
    "bigfamily": [(-1, -1), (-1, -1), (0, 1), (0, 1), (1, 0), (0, 1), (0, -1)],
    "three_generations": [(-1, -1), (-1, -1), (0, 1), (-1, -1), (2, 3), (4, -1)],
    # a parental pair one (or both) of whose members has exactly one known parent (in either column, see flip_cols)
    "halfknown_pair": [(-1, -1), (0, -1), (-1, -1), (1, 2)],
    "halfknown_both": [(-1, -1), (0, -1), (-1, 0), (1, 2), (2, 1)],
}


def gen_config(rng, tier, flavor="db"):
    big = tier == "thorough"
    topo = rng.choice(sorted(TOPOLOGIES))
    parents = TOPOLOGIES[topo]
    ns = len(parents)
    ploidy = [0] * ns
    tau = [[0, 0] for _ in range(ns)]
    unbalanced = rng.random() < 0.45
    for i, (p, q) in enumerate(parents):
        if p < 0 and q < 0:
            ploidy[i] = rng.choice([2, 2, 4, 4, 6])
            if unbalanced and rng.random() < 0.3:
                a = rng.randint(1, ploidy[i] - 1)
                tau[i] = [a, ploidy[i] - a]
            else:
                tau[i] = [ploidy[i] // 2, ploidy[i] // 2]
            continue
        for j, par in enumerate((p, q)):
            if par >= 0:
                pp = ploidy[par]
                if unbalanced and rng.random() < 0.5:
                    tau[i][j] = rng.randint(1, min(3, pp))
                else:
                    tau[i][j] = max(1, pp // 2)
            else:
                tau[i][j] = rng.choice([1, 2, 2, 3]) if unbalanced else rng.choice([1, 2])
        if rng.random() < 0.04 and p >= 0 and q >= 0 and p != q:
            # clonal: everything from q
            tau[i] = [0, ploidy[q]]
        if p >= 0 and p == q and rng.random() < 0.2:
            # the same parent written in both columns but every copy handed down through ONE of them (a clone / unreduced
            # gamete written as a selfing): (0, k) or (k, 0)
            k = rng.randint(2, min(4, ploidy[p]))
            tau[i] = [0, k] if rng.random() < 0.5 else [k, 0]
        while tau[i][0] + tau[i][1] > 6:
            k = 0 if tau[i][0] >= tau[i][1] else 1
            tau[i][k] -= 1
        if tau[i][0] + tau[i][1] < 2:
            tau[i][1] += 1
        ploidy[i] = tau[i][0] + tau[i][1]
    lam = [[0.0, 0.0] for _ in range(ns)]
    err = [[0.0, 0.0] for _ in range(ns)]
    err_mode = rng.choice(["zero", "small", "mixed", "mixed"])
    for i in range(ns):
        for j in range(2):
            if tau[i][j] == 2 and rng.random() < 0.4:
                lam[i][j] = rng.choice([0.1, 0.3])
            if err_mode == "zero":
                err[i][j] = 0.0
            elif err_mode == "small":
                err[i][j] = 0.01
            else:
                err[i][j] = rng.choice([0.0, 0.01, 0.3, 1.0])
    n_pos = rng.choice([1, 2, 3])
    cfg = {
        "workload": "pedigree",
        "topology": topo,
        "parents": [list(x) for x in parents],
        "ploidy": ploidy,
        "tau": tau,
        "lambda": lam,
        "error": err,
        "n_pos": n_pos,
        "n_haps": min(2 ** n_pos, rng.choice([2, 2, 3, 4, 2, 3, 4, 6, 8])),
        "freqs": rng.choice(["flat", "skewed"]),
        "n_reads": [rng.choice([0, 1, 2, 3, 5, 6]) for _ in range(ns)],
        "padding_skew": rng.random() < 0.7,
        "data_seed": rng.randrange(2 ** 31),
        "gap_rate": rng.choice([0.0, 0.2, 0.5]),
        "step_type": rng.choice(["Gibbs", "Gibbs", "Metropolis-Hastings"]),
        "steps": rng.randint(2, 5 if not big else 8),
        "chains": rng.choice([1, 1, 2]),
        "swap": rng.random() < 0.8,
        "entry": rng.choice(["fit", "steps"]),
        "start": rng.choice(["meiosis", "meiosis", "random"]),
        "adv_rate": rng.choice([0.0, 0.3, 1.0]),
    }
    if not cfg["padding_skew"]:
        cfg["n_reads"] = [max(cfg["n_reads"])] * ns
    # the order in which individuals are listed is arbitrary (children may precede their parents)
    cfg["listing"] = list(range(ns))
    if rng.random() < 0.5:
        rng.shuffle(cfg["listing"])
    # which parent is written in which column is arbitrary too (with its gamete parameters): [-1, sire] as well as [dam, -1]
    cfg["flip_cols"] = [rng.random() < 0.3 for _ in range(ns)]
    # the API's default flat prior (frequencies=None) instead of an explicit flat vector
    cfg["freqs_none"] = cfg["freqs"] == "flat" and rng.random() < 0.5
    cfg["refit"] = cfg["entry"] == "fit" and rng.random() < 0.25
    return cfg


def gen_instance(cfg):
    np = bootstrap()["np"]
    rng = _random.Random(cfg["data_seed"])
    n_pos = cfg["n_pos"]
    nh = min(cfg["n_haps"], 2 ** n_pos)
    haps = set()
    while len(haps) < nh:
        haps.add(tuple(rng.randrange(2) for _ in range(n_pos)))
    haps = sorted(haps)
    rng.shuffle(haps)
    haplotypes = np.array(haps, dtype=np.int8)
    ns = len(cfg["parents"])
    if cfg["freqs"] == "flat":
        fr = [1.0 / nh] * nh
    else:
        w = [rng.random() + 0.1 for _ in range(nh)]
        fr = [x / sum(w) for x in w]
    # a Mendelian-consistent truth by forward meiosis
    truth = []
    for i, (p, q) in enumerate(cfg["parents"]):
        g = []
        for j, par in enumerate((p, q)):
            t = cfg["tau"][i][j]
            if par >= 0:
                pool = list(truth[par])
                rng.shuffle(pool)
                g += pool[:t] if t <= len(pool) else [rng.choice(pool) for _ in range(t)]
            else:
                g += [rng.choices(range(nh), weights=fr)[0] for _ in range(t)]
        truth.append(g)
    mr = max(max(cfg["n_reads"]), 1)
    reads = np.full((ns, mr, n_pos, 2), np.nan, dtype=np.float64)
    counts = np.zeros((ns, mr), dtype=np.int64)
    own = []
    for i in range(ns):
        rows = []
        for r in range(cfg["n_reads"][i]):
            counts[i, r] = rng.choice([1, 1, 2, 3])
            hap = haps[rng.choice(truth[i])]
            for j in range(n_pos):
                if rng.random() < cfg["gap_rate"]:
                    continue
                a = hap[j] if rng.random() < 0.85 else rng.randrange(2)
                p = rng.choice([0.7, 0.9, 0.99])
                reads[i, r, j, :] = (1 - p)
                reads[i, r, j, a] = p
            rows.append(r)
        own.append(rows)
    if cfg["padding_skew"] and rng.random() < 0.4:
        # zero-count rows are "absent" wherever they sit, not only at the tail: interleave them
        for i in range(ns):
            order = list(range(mr))
            rng.shuffle(order)
            reads[i] = reads[i][order]
            counts[i] = counts[i][order]
    if cfg["padding_skew"] and rng.random() < 0.3:
        # a zero-count padding row that is NOT all-NaN (stale data in the padding area)
        for i in range(ns):
            for r in range(mr):
                if counts[i, r] == 0:
                    reads[i, r] = 0.5
    return haplotypes, fr, truth, reads, counts


class PedSim:
    def __init__(self, ctx, cfg, checks=("db",)):
        self.ctx = ctx
        self.cfg = cfg
        self.checks = set(checks)
        self.m = bootstrap()
        np = self.np = self.m["np"]
        self.haps, self.fl, self.truth, self.reads, self.counts = gen_instance(cfg)
        self.haps_l = self.haps.tolist()
        self.ns = len(cfg["parents"])
        # relabel individuals: new index k holds the individual generated as listing[k]
        lst = cfg.get("listing") or list(range(self.ns))
        lst = [i for i in lst if i < self.ns] + [i for i in range(self.ns) if i not in lst]
        new_of = {old: new for new, old in enumerate(lst)}
        par = [[(new_of[p] if p >= 0 else -1) for p in cfg["parents"][old]] for old in lst]
        self.parents = np.array(par, dtype=np.int64)
        self.ploidy = np.array([cfg["ploidy"][o] for o in lst], dtype=np.int64)
        self.tau = np.array([cfg["tau"][o] for o in lst], dtype=np.int64)
        self.lam = np.array([cfg["lambda"][o] for o in lst], dtype=np.float64)
        self.err = np.array([cfg["error"][o] for o in lst], dtype=np.float64)
        flips = cfg.get("flip_cols") or []
        for k, o in enumerate(lst):
            if o < len(flips) and flips[o] and self.parents[k, 0] != self.parents[k, 1]:
                for arr in (self.parents, self.tau, self.lam, self.err):
                    arr[k] = arr[k][::-1].copy()
                ctx.counters.inc("parent_columns_flipped")
        self.truth = [self.truth[o] for o in lst]
        self.reads = self.reads[lst]
        self.counts = self.counts[lst]
        if lst != list(range(self.ns)):
            ctx.counters.inc("individuals_relisted")
        self.lf = np.log(np.array(self.fl, dtype=np.float64))
        self.mp = int(self.ploidy.max())
        self.index_own_reads()
        if any(self.parents[k, 0] >= 0 and self.parents[k, 0] == self.parents[k, 1] and 0 in (int(self.tau[k, 0]), int(self.tau[k, 1])) for k in range(self.ns)):
            ctx.counters.inc("selfing_one_column")
        self.rng = SimRandom(ctx, adv_rate=cfg.get("adv_rate", 0.0))
        self.real = {}
        self.history = []
        self.traj = []
        self.cur = None
        self.scan = None
        self.in_probe = 0
        self._llk = {}
        self.caches = []
        self.seen = set()
        self.last_verified = None
        self.zero_err = bool((self.err[self.parents >= 0] == 0).any()) if (self.parents >= 0).any() else False

    def index_own_reads(self):
        # each sample's OWN positive-count reads, as known to the harness
        self.own_reads = []
        for i in range(self.ns):
            idx = [r for r in range(self.counts.shape[1]) if self.counts[i, r] > 0]
            self.own_reads.append((self.reads[i][idx].tolist(), [int(self.counts[i, r]) for r in idx], self.reads[i][idx], self.counts[i][idx]))

    def viol(self, cls, msg, **detail):
        raise Violation(cls, msg, step=self.ctx.step, detail=detail)

    def z(self):
        return self.np.zeros(self.mp, dtype=self.np.int64)

    def llk_ref(self, s, g):
        k = (s, ref.allele_key(g))
        v = self._llk.get(k)
        if v is None:
            rl, cl, _, _ = self.own_reads[s]
            v = ref.read_llk(rl, cl, [self.haps_l[a] for a in k[1]])
            self._llk[k] = v
        return v

    def fresh_llk(self, s, g):
        """repo's uncached likelihood on the sample's own reads."""
        _, _, r, c = self.own_reads[s]
        return float(self.m["likelihood"].log_likelihood(r, self.haps[self.np.asarray(g, dtype=self.np.int64)], read_counts=c))

    def lprior_trio(self, X, i):
        np = self.np
        p, q = int(self.parents[i, 0]), int(self.parents[i, 1])
        return float(self.m["pprior"].trio_log_pmf(
            X[i], X[p], X[q],
            int(self.ploidy[p]) if p >= 0 else 0, int(self.ploidy[q]) if q >= 0 else 0,
            int(self.tau[i, 0]), int(self.tau[i, 1]), float(self.lam[i, 0]), float(self.lam[i, 1]),
            float(self.err[i, 0]) if p >= 0 else 1.0, float(self.err[i, 1]) if q >= 0 else 1.0,
            self.lf, self.z(), self.z(), self.z(), self.z(), self.z(), self.z(), self.z(), np.zeros(self.mp)))

    def ljoint(self, X, members=None):
        """log J_ord restricted to factors in `members` (default all)."""
        tot = 0.0
        for i in (range(self.ns) if members is None else members):
            g = [int(a) for a in X[i, : self.ploidy[i]]]
            tot += self.llk_ref(i, g) + self.lprior_trio(X, i) - ref.ln_nperm_alleles(g)
            if tot == -math.inf:
                return tot
        return tot

    def blanket(self, s):
        out = {s}
        for i in range(self.ns):
            if s in (int(self.parents[i, 0]), int(self.parents[i, 1])):
                out.add(i)
        return sorted(out)

    # ------------------------------------------------------------------
    def install(self, seams):
        m = self.m
        pmcmc, pclasses = m["pmcmc"], m["pclasses"]
        R = self.real
        R["gibbs"] = pmcmc.gibbs_probabilities
        R["mh"] = pmcmc.metropolis_hastings_probabilities
        R["allele_step"] = pmcmc.allele_step
        R["compound"] = pmcmc.compound_step
        R["swap"] = pmcmc.pair_allele_swap_step
        R["sampler"] = pclasses.mcmc_sampler
        R["cached"] = pmcmc.log_likelihood_alleles_cached
        if pclasses.mcmc_sampler is not pmcmc.mcmc_sampler:
            raise HarnessError("pedigree.classes.mcmc_sampler is not pedigree.mcmc.mcmc_sampler")
        self.rng.install(seams, [pmcmc])
        seams.set(pmcmc, "gibbs_probabilities", self.w_gibbs)
        seams.set(pmcmc, "metropolis_hastings_probabilities", self.w_mh)
        seams.set(pmcmc, "allele_step", self.w_allele_step)
        seams.set(pmcmc, "compound_step", self.w_compound)
        seams.set(pmcmc, "pair_allele_swap_step", self.w_swap)
        seams.set(pclasses, "mcmc_sampler", self.w_sampler)
        seams.set(pmcmc, "log_likelihood_alleles_cached", self.w_cached)

    def start_state(self, chain):
        np = self.np
        rng = _random.Random(self.cfg["data_seed"] ^ (0x99 + chain))
        X = np.full((self.ns, self.mp), -1, dtype=np.int16)
        nh = len(self.haps)
        use_random = self.cfg["start"] == "random" and not self.zero_err
        for i in range(self.ns):
            pl = int(self.ploidy[i])
            if use_random:
                X[i, :pl] = [rng.randrange(nh) for _ in range(pl)]
            else:
                g = list(self.truth[i])
                rng.shuffle(g)
                X[i, :pl] = g
        return X

    def run(self):
        cfg = self.cfg
        np = self.np
        m = self.m
        st = 0 if cfg["step_type"] == "Gibbs" else 1
        with Seams() as seams:
            self.install(seams)
            if cfg["entry"] == "fit":
                model = m["pclasses"].PedigreeCallingMCMC(
                    sample_ploidy=self.ploidy, sample_inbreeding=np.zeros(self.ns), sample_parents=self.parents,
                    gamete_tau=self.tau, gamete_lambda=self.lam, gamete_error=self.err, haplotypes=self.haps,
                    frequencies=None if cfg.get("freqs_none") else np.array(self.fl), steps=cfg["steps"], annealing=0, chains=cfg["chains"], random_seed=5,
                    step_type=cfg["step_type"], swap_parental_alleles=bool(cfg["swap"]))
                trace = model.fit(self.reads, self.counts, initial=self.start_state(0))
                if cfg.get("refit") and self.ns > 1:
                    # the same model object fitted again to other reads of the same shape (every sample gets its neighbour's
                    # reads): nothing - caches, states - may survive from the first fit
                    perm = list(range(1, self.ns)) + [0]
                    self.reads = self.reads[perm].copy()
                    self.counts = self.counts[perm].copy()
                    self.index_own_reads()
                    self._llk.clear()
                    self.seen.clear()
                    del self.caches[:]
                    del self.history[:]
                    self.last_verified = None
                    trace = model.fit(self.reads, self.counts, initial=self.start_state(0))
                    self.ctx.counters.inc("refit_same_model")
                self.result = ("fit", trace)
            else:
                children = m["pmcmc"].sample_children_matrix(self.parents)
                pairs, blankets = m["pmcmc"].parental_pair_markov_blankets(self.parents, children)
                out = []
                for c in range(cfg["chains"]):
                    X = self.start_state(c).astype(np.int64)
                    cache = {(-1, -1): float("nan")}
                    self.cur = {"states": []}
                    scratch = [self.z() for _ in range(7)] + [np.zeros(self.mp)]
                    for i in range(cfg["steps"]):
                        self.ctx.step = i
                        m["pmcmc"].compound_step(X, self.ploidy, self.parents, children, self.tau, self.lam, self.err,
                                                 self.reads, self.counts, self.haps, self.lf, cache, st, *scratch)
                        if cfg["swap"]:
                            for j in range(len(pairs)):
                                m["pmcmc"].pair_allele_swap_step(pairs[j, 0], pairs[j, 1], blankets[j], X, self.ploidy, self.parents,
                                                                 self.tau, self.lam, self.err, self.reads, self.counts, self.haps,
                                                                 self.lf, cache, *scratch)
                        self.cur["states"].append(X.copy())
                    self.history.append(self.cur["states"])
                    self.cur = None
                    out.append(X)
                self.result = ("steps", out)
            if "cache" in self.checks:
                self.audit_caches()
        return self.result

    def audit_caches(self):
        """Every value a cache serves for (sample, genotype) equals the likelihood recomputed on that
        sample's own reads - queried through the real cached function (no assumption about keys)."""
        seen_c = set()
        for cache in self.caches:
            if id(cache) in seen_c:
                continue
            seen_c.add(id(cache))
            for (s, g) in sorted(self.seen):
                ga = self.np.array(g, dtype=self.np.int64)
                _, _, r, c = self.own_reads[s]
                self.in_probe += 1
                try:
                    val = float(self.real["cached"](r, c, self.haps, s, ga, cache))
                finally:
                    self.in_probe -= 1
                fresh = self.fresh_llk(s, ga)
                self.ctx.counters.inc("cache_entries_audited")
                if not rel_close(val, fresh):
                    self.viol("cache_entry_wrong",
                              "pedigree llk cache serves %r for (sample %d, genotype %r); likelihood recomputed on that sample's own reads is %r"
                              % (val, s, list(g), fresh),
                              sample=s, reads_of_sample=len(self.own_reads[s][1]), n_reads=[len(o[1]) for o in self.own_reads])

    # -- seams ----------------------------------------------------------
    def w_sampler(self, *args, **kwargs):
        a = bind(self.real["sampler"], args, kwargs)
        np = self.np
        self.cur = {"states": [], "X": None}
        self.ctx.log.add("ped_sampler_enter", a["sample_genotypes"], int(a["n_steps"]))
        trace = self.real["sampler"](**a)
        cur, self.cur = self.cur, None
        if cur["X"] is not None:
            cur["states"].append(cur["X"].copy())
        self.history.append(cur["states"])
        if len(cur["states"]) != int(a["n_steps"]):
            self.viol("orchestration", "observed %d pedigree iterations for n_steps=%d" % (len(cur["states"]), int(a["n_steps"])))
        for i, Xs in enumerate(cur["states"]):
            for s in range(self.ns):
                pl = int(self.ploidy[s])
                if sorted(int(v) for v in Xs[s, :pl]) != [int(v) for v in trace[i, s, :pl]]:
                    self.viol("trace_state_mismatch", "pedigree trace[%d, sample %d] is not the sorted state held after iteration %d" % (i, s, i),
                              trace=trace[i, s], expected=Xs[s])
        return trace

    def w_compound(self, *args, **kwargs):
        a = bind(self.real["compound"], args, kwargs)
        X = a["sample_genotypes"]
        if self.cur is not None and "X" in self.cur:
            if self.cur["X"] is not None:
                self.cur["states"].append(self.cur["X"].copy())
            self.cur["X"] = X
            self.ctx.step = len(self.cur["states"])
        self.scan = []
        out = self.real["compound"](**a)
        scan, self.scan = self.scan, None
        self.ctx.log.add("ped_compound", X, scan)
        want = sorted((s, k) for s in range(self.ns) for k in range(int(self.ploidy[s])))
        # informational only: C18 states that every MOVE is stationary, not that a sweep is complete
        self.ctx.counters.inc("sweeps_full" if sorted(scan) == want else "sweeps_partial_or_repeated")
        self.traj.append(("ped", X.tobytes()))
        return out

    def w_allele_step(self, *args, **kwargs):
        a = bind(self.real["allele_step"], args, kwargs)
        s, k = int(a["target_index"]), int(a["allele_index"])
        if self.scan is not None:
            self.scan.append((s, k))
        X = a["sample_genotypes"]
        before = X.copy()
        self.rng.last_vec = None
        out = self.real["allele_step"](**a)
        vec, choice = self.rng.last_vec, self.rng.last_choice
        self.ctx.log.add("ped_allele", s, k, vec, choice)
        want = before.copy()
        want[s, k] = choice
        if not self.np.array_equal(X, want):
            self.viol("state_update", "allele_step chose %r but the state is not X[s,k:=choice]" % choice, before=before, after=X)
        # draw-level: the vector the move was actually drawn from is the one that was verified for (s, k, state)
        if "db" in self.checks and vec is not None:
            lv = self.last_verified
            same = lv is not None and lv[0] == (s, k) and self.np.array_equal(lv[1], before) and self.np.array_equal(lv[2], vec)
            if not same:
                if int(a["step_type"]) == 0:
                    self.verify_gibbs_vector(s, k, before, self.np.array(vec, dtype=self.np.float64), where="allele_step draw")
                else:
                    self.ctx.counters.inc("mh_draw_from_unverified_vector")
            else:
                self.ctx.counters.inc("draws_from_verified_vector")
        return out

    def _call_probs(self, which, a, X):
        self.in_probe += 1
        try:
            kw = dict(a)
            kw["sample_genotypes"] = X.copy()
            kw["llk_cache"] = None
            return self.np.array(self.real[which](**kw), dtype=self.np.float64)
        finally:
            self.in_probe -= 1

    def w_gibbs(self, *args, **kwargs):
        a = bind(self.real["gibbs"], args, kwargs)
        X = a["sample_genotypes"]
        before = X.copy()
        out = self.real["gibbs"](**a)
        if self.in_probe:
            return out
        np = self.np
        self.record_kernel("ped_gibbs", a, before, out)
        if not np.array_equal(X, before):
            self.viol("state_update", "gibbs_probabilities did not restore the state", before=before, after=X)
        if "db" in self.checks:
            s, k = int(a["target_index"]), int(a["allele_index"])
            vec = np.array(out, dtype=np.float64)
            if self.verify_gibbs_vector(s, k, before, vec, where="gibbs_probabilities"):
                self.last_verified = ((s, k), before.copy(), vec.copy())
        return out

    def verify_gibbs_vector(self, s, k, before, vec, where):
        np = self.np
        nh = len(self.haps)
        mem = self.blanket(s)
        cond = []
        for al in range(nh):
            Y = before.copy()
            Y[s, k] = al
            cond.append(self.ljoint(Y, mem))
        if max(cond) == -math.inf:
            self.ctx.counters.inc("zero_density_skip")
            return False
        want = ref.normalise_logs(cond)
        dev = max(abs(float(vec[i]) - want[i]) for i in range(nh)) if (len(vec) == nh and np.all(np.isfinite(vec))) else float("inf")
        self.ctx.counters.inc("gibbs_vectors")
        tp, tq = int(self.tau[s, 0]), int(self.tau[s, 1])
        p, q = int(self.parents[s, 0]), int(self.parents[s, 1])
        unb = tp != tq
        if unb:
            self.ctx.counters.inc("unbalanced_tau_target")
        if p >= 0 and p == q:
            self.ctx.counters.inc("selfing_target")
        if (p < 0) != (q < 0):
            self.ctx.counters.inc("one_unknown_parent_target")
        if len(mem) > 1:
            self.ctx.counters.inc("target_has_children")
        if not (dev <= TOL_P):
            self.viol("ped_gibbs_not_full_conditional",
                      "pedigree Gibbs vector (%s) deviates from the exact full conditional of the joint by %.3g" % (where, dev),
                      target=s, copy=k, vector=vec, expected=want, tau=[tp, tq], unbalanced_tau=unb,
                      parents=[p, q], X=before, topology=self.cfg["topology"])
        self.ctx.key("pgibbs", self.cfg["topology"], tuple(self.cfg["ploidy"]), tuple(map(tuple, self.cfg["tau"])), s,
                     tuple(sorted(int(v) for v in before[s, : self.ploidy[s]])), int(before[s, k]),
                     tuple(tuple(sorted(int(v) for v in before[i, : self.ploidy[i]])) for i in mem))
        return True

    def w_mh(self, *args, **kwargs):
        a = bind(self.real["mh"], args, kwargs)
        X = a["sample_genotypes"]
        before = X.copy()
        out = self.real["mh"](**a)
        if self.in_probe:
            return out
        np = self.np
        self.record_kernel("ped_mh", a, before, out)
        if not np.array_equal(X, before):
            self.viol("state_update", "metropolis_hastings_probabilities did not restore the state", before=before, after=X)
        if "db" in self.checks:
            s, k = int(a["target_index"]), int(a["allele_index"])
            px = np.array(out, dtype=np.float64)
            nh = len(self.haps)
            mem = self.blanket(s)
            cur = int(before[s, k])
            lx = self.ljoint(before, mem)
            if lx == -math.inf:
                self.ctx.counters.inc("zero_density_skip")
                return out
            for al in range(nh):
                if al == cur:
                    continue
                Y = before.copy()
                Y[s, k] = al
                ly = self.ljoint(Y, mem)
                if ly == -math.inf:
                    if px[al] > 1e-300:
                        self.viol("detailed_balance_ped_mh", "move into a zero-probability joint state has probability %g" % px[al], target=s, copy=k, allele=al, X=before)
                    continue
                if px[al] <= TINY:
                    theo = min(0.0, ly - lx) - math.log(nh - 1)
                    if theo > UNDERFLOW:
                        self.viol("detailed_balance_ped_mh", "forward probability 0, reference log p=%.3f" % theo, target=s, copy=k, allele=al, X=before)
                    continue
                py = self._call_probs("mh", a, Y)
                if py[cur] <= TINY:
                    theo = lx + math.log(px[al]) - ly
                    if theo > UNDERFLOW:
                        self.viol("detailed_balance_ped_mh", "reverse probability 0, reference log p=%.3f" % theo, target=s, copy=k, allele=al, X=before)
                    continue
                dev = abs(lx + math.log(px[al]) - ly - math.log(py[cur]))
                self.ctx.counters.inc("mh_pairs")
                if dev > TOL_LOG:
                    self.viol("detailed_balance_ped_mh", "ordered detailed balance against the joint fails: log deviation %.3g" % dev,
                              target=s, copy=k, allele=al, X=before, topology=self.cfg["topology"], tau=self.cfg["tau"])
                self.ctx.key("pmh", self.cfg["topology"], tuple(self.cfg["ploidy"]), s, cur, al,
                             tuple(tuple(sorted(int(v) for v in before[i, : self.ploidy[i]])) for i in mem))
        return out

    def record_kernel(self, kind, a, X, vec):
        if not self.cfg.get("record_kernels") or len(self.ctx.extra) >= 2:
            return
        np = self.np
        vec = np.array(vec, dtype=np.float64)
        if not np.all(np.isfinite(vec)):
            return
        reads = [[[[None if v != v else float(v) for v in row] for row in rd] for rd in smp] for smp in self.reads.tolist()]
        self.ctx.extra.append({"kind": kind, "target": int(a["target_index"]), "allele": int(a["allele_index"]), "X": np.asarray(X).tolist(),
                               "ploidy": self.ploidy.tolist(), "parents": self.parents.tolist(), "tau": self.tau.tolist(), "lambda": self.lam.tolist(),
                               "error": self.err.tolist(), "reads": reads, "counts": self.counts.tolist(), "haplotypes": self.haps.tolist(),
                               "log_frequencies": self.lf.tolist(), "vector": vec.tolist()})

    def w_swap(self, *args, **kwargs):
        a = bind(self.real["swap"], args, kwargs)
        np = self.np
        X = a["sample_genotypes"]
        before = X.copy()
        self.rng.last_ints = []
        self.rng.last_unit = None
        pa, acc = self.real["swap"](**a)
        ints, u = list(self.rng.last_ints), self.rng.last_unit
        self.ctx.log.add("ped_swap", int(a["p"]), int(a["q"]), ints, u, None if pa != pa else float(pa), bool(acc))
        self.traj.append(("swap", X.tobytes()))
        if self.in_probe:
            return pa, acc
        if len(ints) != 2:
            raise HarnessError("pair_allele_swap_step drew %d integers through np.random.randint (expected 2): the swap cannot be checked" % len(ints))
        p, q = int(a["p"]), int(a["q"])
        ip, iq = ints
        if pa != pa:  # nan: no proposal
            if before[p, ip] != before[q, iq] or not np.array_equal(X, before):
                self.viol("state_update", "swap step reported 'no proposal' although the alleles differ / state changed", before=before, after=X)
            self.ctx.counters.inc("swap_no_proposal")
            return pa, acc
        Y = before.copy()
        Y[p, ip], Y[q, iq] = before[q, iq], before[p, ip]
        changed = not np.array_equal(X, before)
        if changed and not np.array_equal(X, Y):
            self.viol("state_update", "swap step changed the state to something other than the proposed exchange", before=before, after=X, proposed=Y)
        if u is None:
            raise HarnessError("swap step made a proposal but drew no uniform through np.random.rand: the swap cannot be checked")
        if changed != (u < float(pa)) or bool(acc) != changed:
            self.viol("swap_decision", "prob_accept=%r uniform=%r accept=%r changed=%r" % (float(pa), u, bool(acc), changed))
        nr = [len(o[1]) for o in self.own_reads]
        if nr[q] > nr[p]:
            self.ctx.counters.inc("swap_q_more_reads_than_p")
        if nr[q] != nr[p]:
            self.ctx.counters.inc("swap_unequal_reads")
        if "db" in self.checks:
            mem = sorted(set(self.blanket(p)) | set(self.blanket(q)))
            lx, ly = self.ljoint(before, mem), self.ljoint(Y, mem)
            if lx == -math.inf:
                self.ctx.counters.inc("zero_density_skip")
                return pa, acc
            # reverse probe from the swapped state at the same positions
            self.in_probe += 1
            self.rng.script = [ip, iq, 2.0]
            try:
                kw = dict(a)
                kw["sample_genotypes"] = Y.copy()
                kw["llk_cache"] = {(-1, -1): float("nan")}
                pb, _ = self.real["swap"](**kw)
            finally:
                self.rng.script = None
                self.in_probe -= 1
            pa_f, pb_f = float(pa), float(pb)
            if ly == -math.inf:
                if pa_f > 1e-300:
                    self.viol("detailed_balance_ped_swap", "swap into a zero-probability joint state accepted with probability %g" % pa_f, before=before, proposed=Y)
                return pa, acc
            if pa_f <= TINY or pb_f <= TINY:
                theo = (ly - lx) if pa_f <= TINY else (lx - ly)
                if theo > UNDERFLOW and not (pa_f <= TINY and pb_f <= TINY):
                    self.viol("detailed_balance_ped_swap", "one direction of a swap has acceptance 0 (%g / %g), joint ratio exp(%.3f)" % (pa_f, pb_f, ly - lx),
                              before=before, proposed=Y)
                return pa, acc
            dev = abs(lx + math.log(pa_f) - ly - math.log(pb_f))
            self.ctx.counters.inc("swap_pairs")
            if dev > TOL_LOG:
                self.viol("detailed_balance_ped_swap",
                          "parental allele swap violates detailed balance against the joint: log deviation %.3g" % dev,
                          p=p, q=q, index_p=ip, index_q=iq, before=before, proposed=Y, prob_accept=pa_f, prob_reverse=pb_f,
                          n_reads=nr, q_more_reads_than_p=nr[q] > nr[p], unequal_reads=nr[q] != nr[p], topology=self.cfg["topology"])
            self.ctx.key("pswap", self.cfg["topology"], tuple(self.cfg["ploidy"]), p, q, int(before[p, ip]), int(before[q, iq]),
                         tuple(tuple(sorted(int(v) for v in before[i, : self.ploidy[i]])) for i in mem))
        return pa, acc

    def w_cached(self, *args, **kwargs):
        a = bind(self.real["cached"], args, kwargs)
        out = self.real["cached"](**a)
        if a["cache"] is not None and not self.in_probe:
            if not any(c is a["cache"] for c in self.caches):
                self.caches.append(a["cache"])
            self.seen.add((int(a["sample"]), tuple(int(v) for v in a["genotype_alleles"])))
        if "cache" in self.checks and not self.in_probe:
            s = int(a["sample"])
            fresh = self.fresh_llk(s, a["genotype_alleles"])
            self.ctx.counters.inc("ped_cached_calls")
            if not rel_close(float(out), fresh):
                nr = [len(o[1]) for o in self.own_reads]
                self.viol("cached_value_wrong",
                          "pedigree log_likelihood_alleles_cached returned %r for sample %d, likelihood on that sample's own reads is %r" % (float(out), s, fresh),
                          sample=s, genotype=a["genotype_alleles"], n_reads=nr, reads_passed=int((self.np.asarray(a["read_counts"]) > 0).sum()),
                          truncated_reads=int((self.np.asarray(a["read_counts"]) > 0).sum()) != nr[s])
        return out


def shrink_candidates(cfg, violation):
    out = []

    def mod(**kw):
        c = dict(cfg)
        c.update(kw)
        if c != cfg:
            out.append(c)

    step = (violation or {}).get("step")
    if isinstance(step, int) and step + 1 < cfg["steps"]:
        mod(steps=step + 1)
    if cfg["chains"] > 1:
        mod(chains=1)
    if cfg.get("adv_rate", 0) > 0:
        mod(adv_rate=0.0)
    if cfg["gap_rate"] > 0:
        mod(gap_rate=0.0)
    if cfg["n_pos"] > 1:
        mod(n_pos=cfg["n_pos"] - 1, n_haps=min(cfg["n_haps"], 2 ** (cfg["n_pos"] - 1)))
    if cfg["n_haps"] > 2:
        mod(n_haps=cfg["n_haps"] - 1)
    if cfg["freqs"] != "flat":
        mod(freqs="flat")
    if cfg.get("freqs_none"):
        mod(freqs_none=False)
    if any(cfg.get("flip_cols") or []):
        mod(flip_cols=[False] * len(cfg["flip_cols"]))
    if any(any(x > 0 for x in row) for row in cfg["lambda"]):
        mod(**{"lambda": [[0.0, 0.0] for _ in cfg["lambda"]]})
    if any(n > 1 for n in cfg["n_reads"]):
        mod(n_reads=[min(n, 1) for n in cfg["n_reads"]])
        mod(n_reads=[max(0, n - 1) for n in cfg["n_reads"]])
    if cfg["swap"]:
        mod(swap=False)
    if cfg["steps"] > 1:
        mod(steps=cfg["steps"] - 1)
    return out
