"""C08 - records depend only on inputs and seed, not on cores / order / history.

One evaluation is a *batch*: a canonical single-core run of one program on one
dataset, followed by runs that vary the number of cores, the interleaving, the
order and subset of loci, earlier work in the process, the RNG state every
simulated process starts with, the clock, the stdout buffer size and -
optionally - one failing locus.
"""
import hashlib
import os
import random as _random
import shutil
import tempfile

from . import datasets
from .core import REPO, HarnessError, Violation
from .engine_p import ProcessSim, bootstrap

ID = "C08"
ENGINE = "P"
ISOLATE = True  # every run in a forked child of the warmed parent
RUNS = {"quick": 200, "thorough": 6000}
BATCH_WALL_CAP = {"quick": 2400, "thorough": 8 * 3600}
RUN_WALL_CAP = 900
RECHECK = {"quick": 3, "thorough": 30}
MIN_BUDGET = 25
MIN_WALL = 300.0

RULE = (
    "one evaluation = one batch (program, dataset, options) = a canonical single-core run plus 3-6 perturbed runs in the same interpreter, or (8%) one library history: a seeded sampler "
    "object (assemble / call / pedigree) fitted at once vs constructed early / refitted / fitted after another model, with other work on both generators in between; "
    "distinct_nontrivial = distinct SHA-256 of the IPC event sequence (who reached which synchronisation point in which order) among the multi-core runs"
)
FAULT_KEYS = ["locus_subset_empty", "policy_uniform", "policy_sticky", "policy_starve_writer", "policy_starve_main", "policy_eager_main", "policy_last_first", "schedule_choices", "multi_core_runs", "cores_gt_loci", "locus_order", "locus_subset", "region_single", "prior_work", "proc_rng_init",
              "clock_jump", "small_stdout_buffer", "buffer_full_write", "failing_locus_injected", "failing_locus_real", "failing_locus_io_error", "fork_unflushed"]
PROBE_KEYS = ["runs_total", "multi_core_runs", "failing_locus_in_worker", "failing_locus_single_core", "empty_block", "records_compared",
              "header_compared", "torn_tail_on_failure", "library_fits", "library_histories", "library_fresh_process_baselines", "programs_assemble", "programs_call", "programs_call_exact", "programs_call_pedigree"]
OPTIONAL_PROBES = {"quick": ("torn_tail_on_failure",), "thorough": ()}
COMPONENTS = {
    "real": ["mchap.application.{assemble,call,call_exact,call_pedigree}.program.cli / run_stdout / _run_stdout_multi_core / _worker / _writer / call_locus (compiled, JIT on)",
             "pysam on real BAM / VCF / FASTA / BED files", "the compiled samplers with their own seeded RNGs", "record formatting",
             "library histories: DenovoMCMC / CallingMCMC / PedigreeCallingMCMC construct + fit (compiled)"],
    "stub": ["multiprocessing (SimMP: unbounded FIFO manager queue, Pool of simulated processes = parked threads, AsyncResult re-raising the task's exception)",
             "OS scheduler (tape-driven, pre-emption only at IPC points)", "sys.stdout (per-process buffers over one shared file, fork semantics)",
             "datetime.date.today (simulated calendar)", "pysam file objects (wrapped: fork semantics of inherited open file descriptions)"],
}
ASSUMPTIONS = [
    "simulated processes share one interpreter: a worker sees RNG state left by other workers' fits - a superset of the histories a forked worker can see",
    "the manager queue is reliable FIFO and a task's exception surfaces from AsyncResult.get() (confirmed against real multiprocessing by the fidelity probe)",
    "not injected: queue loss/duplication, SIGKILL of a worker, stdout write errors (outside the property's quantifier)",
]

PROGRAMS = ["assemble", "assemble", "call", "call-exact", "call-pedigree"]
DAY0 = 739000  # a simulated calendar day (proleptic ordinal)


def prepare(tier):
    m = bootstrap()
    warm_compile(m)


def warm_compile(m):
    """Compile everything once in the parent so that forked workers share it."""
    import io
    import sys
    import warnings
    ds = datasets.repo_simple(REPO)
    bams = [ds["bams"][s] for s in ds["samples"]]
    common = ["--mcmc-steps", "30", "--mcmc-burn", "10", "--mcmc-seed", "1"]
    old = sys.stdout
    tmp = tempfile.mkdtemp(prefix="verif-warm-")
    try:
        sys.stdout = io.StringIO()
        m["assemble"].program.cli(["mchap", "assemble", "--bam"] + bams + ["--ploidy", "4", "--targets", ds["bed"], "--variants", ds["variants"],
                                   "--reference", ds["fasta"], "--mcmc-temperatures", "0.5", "1.0", "--report", "AFP", "GP", "GL"] + common).run_stdout()
        text = sys.stdout.getvalue()
        hv = os.path.join(tmp, "h.vcf")
        with open(hv, "w") as f:
            f.write(text)
        for name, mod, extra in (("call", "call", common), ("call-exact", "call_exact", []), ("call-pedigree", "call_pedigree", common)):
            sys.stdout = io.StringIO()
            argv = ["mchap", name, "--bam"] + bams + ["--ploidy", "4", "--haplotypes", hv, "--report", "AFP", "GP", "GL"] + extra
            if name == "call-pedigree":
                argv += ["--sample-parents", os.path.join(ds["dir"], "simple.pedigree.132.txt")]
            with warnings.catch_warnings():
                warnings.simplefilter("ignore")
                m[mod].program.cli(argv).run_stdout()
    finally:
        sys.stdout = old
        shutil.rmtree(tmp, ignore_errors=True)


def child_init(config):
    """numba re-seeds its generator from OS entropy in every forked child: pin both RNGs so that a run is
    a pure function of (config, tape) even on a tree that forgets to reseed."""
    import json
    from .core import H
    m = bootstrap()
    x = H(json.dumps(config, sort_keys=True)) & 0x7FFFFFFF
    m["np"].random.seed(x)
    m["jitutils"].seed_numba(x)


def gen_config(rng, tier, index=0):
    if rng.random() < 0.08:
        # library histories: "traces of repeated .fit() calls interleaved with other work in one process"
        return {"program": "library", "sampler": rng.choice(["assemble", "assemble", "call", "call", "pedigree"]), "data_seed": rng.randrange(2 ** 31),
                "mcmc_seed": rng.choice([0, 1, 11, 42, 12345, 2 ** 31 - 1]), "chains": rng.choice([1, 2]), "steps": rng.choice([20, 40]),
                "histories": [rng.choice(["construct_early", "refit", "construct_early", "two_models"]) for _ in range(rng.choice([2, 3]))],
                # the first fit EVER made in this process with these reads is one with other counts / inbreeding; judged against the
                # same fit made in a fresh (forked) process, whose module state nothing has touched
                "donor_first": rng.random() < 0.8}
    program = rng.choice(PROGRAMS)
    use_simple = rng.random() < 0.3
    n_var = rng.randint(3, 6)
    cfg = {
        "program": program,
        "dataset": "simple" if use_simple else "synthetic",
        "data_seed": rng.randrange(2 ** 31),
        "mcmc_seed": rng.choice([0, 0, 1, 11, 42, 12345, 2 ** 31 - 1]),
        "chains": rng.choice([1, 1, 2]),
        "steps": rng.choice([40, 60, 100]),
        "report": sorted(rng.sample(["AFP", "ACP", "AOP", "GP", "GL", "SNVDP", "AFPRIOR", "AOPSUM"], rng.choice([0, 0, 1, 2, 4]))),
        "temperatures": rng.choice([None, None, [0.3, 1.0]]),
        "variants": [],
        "opt_picks": [rng.random() for _ in range(3)],
        "unnamed": [rng.random() < 0.35 for _ in range(14)] if rng.random() < 0.3 else [],
    }
    fail_batch = rng.random() < 0.35
    cfg["fail"] = None
    if fail_batch:
        cfg["fail"] = {"kind": rng.choice(["injected", "injected", "real", "io", "io"]), "pos": rng.random(), "exc": rng.choice(["OSError", "OSError", "ValueError", "EOFError"])}
        if (use_simple or program != "assemble") and cfg["fail"]["kind"] == "real":
            cfg["fail"]["kind"] = "injected"
    for v in range(n_var):
        cfg["variants"].append({
            "cores": rng.choice([1, 2, 2, 3, 4, 5, 8]),
            "order": rng.choice(["file", "shuffle", "shuffle", "reverse"]),
            "subset": rng.choice([None, None, rng.random(), rng.random(), "empty"]) if rng.random() < 0.15 else rng.choice([None, None, rng.random()]),
            "region": rng.random() < 0.08,
            "prior_work": rng.choice([None, "raw", "raw", "fit"]),
            "proc_rng_init": rng.random() < 0.7,
            "day_shift": rng.choice([0, 0, 1, 365, -30]),
            "capacity": rng.choice([None, None, 64, 300, 4096]),
            "policy": rng.choice(["uniform", "uniform", "sticky", "starve_writer", "starve_main", "eager_main", "last_first"]),
            "fail": bool(fail_batch and (v == n_var - 1 or rng.random() < 0.5)),
        })
    return cfg


# ---------------------------------------------------------------------------


def error_text(err):
    """Exception chain (or the remote traceback text that came back from a simulated worker) as text."""
    import traceback
    out = []
    seen = set()
    while err is not None and id(err) not in seen:
        seen.add(id(err))
        out.append(getattr(err, "_sim_remote_traceback", "") or "".join(traceback.format_exception(type(err), err, err.__traceback__)))
        err = err.__cause__ or err.__context__
    return "\n".join(out)


def is_o2(err):
    t = error_text(err)
    return "_genotype_posterior_as_array" in t and "IndexError" in t


def multi_core(var):
    return var["cores"] > 1


def rec_key(line):
    """(chrom, pos, unit key): records are identified by position (CHROM:POS), not by ID - a locus need not have a name."""
    f = line.split("\t")
    return (f[0], f[1], "%s:%s" % (f[0], f[1])) if len(f) > 3 else ("?", "?", line[:20])


def locus_key(locus):
    return "%s:%d" % (locus.contig, locus.start + 1)


def filedate(day):
    import datetime
    d = datetime.date.fromordinal(day)
    return "##fileDate=%04d%02d%02d" % (d.year, d.month, d.day)


def strip_header(header):
    return [l for l in header if not l.startswith("##fileDate") and not l.startswith("##commandline")]


class Batch:
    def __init__(self, ctx):
        self.ctx = ctx
        self.cfg = ctx.config
        self.m = bootstrap()
        self.tmp = tempfile.mkdtemp(prefix="verif-c08-", dir=os.environ.get("TMPDIR"))
        self.nfile = 0

    def close(self):
        shutil.rmtree(self.tmp, ignore_errors=True)

    def path(self, suffix):
        self.nfile += 1
        return os.path.join(self.tmp, "f%03d%s" % (self.nfile, suffix))

    def program_cls(self, name):
        mod = {"assemble": "assemble", "call": "call", "call-exact": "call_exact", "call-pedigree": "call_pedigree"}[name]
        return self.m[mod].program

    def build_dataset(self):
        cfg = self.cfg
        if cfg["dataset"] == "simple":
            ds = datasets.repo_simple(REPO)
            ds["bam_files"] = [ds["bams"][s] for s in ds["samples"]]
            ds["ploidy_arg"] = "4"
            ds["uniform_ploidy"] = 4
        elif cfg["dataset"] == "cohort":
            ds = datasets.generate_cohort(os.path.join(self.tmp, "ds"), cfg["data_seed"])
            ds["ploidy_arg"] = "4"
            ds["uniform_ploidy"] = 4
        else:
            bad = None
            if cfg.get("fail") and cfg["fail"]["kind"] == "real":
                bad = "pending"
            ds = datasets.generate(os.path.join(self.tmp, "ds"), cfg["data_seed"])
            ds["ploidy_arg"] = ds["ploidy_file"]
            pl = set(ds["ploidy"].values())
            ds["uniform_ploidy"] = pl.pop() if len(pl) == 1 else None
        return ds

    def base_args(self, ds, program):
        cfg = self.cfg
        a = ["--bam"] + ds["bam_files"] + ["--ploidy", ds["ploidy_arg"]]
        rep = list(cfg["report"])
        # Observation O2 (DESIGN.md): assemble --report GP raises IndexError when the reference haplotype is
        # masked (G-array sized without the reference).  C07/C13 territory: a batch whose canonical run fails
        # that way is skipped (see is_o2), it is not a C08 violation.
        if rep:
            a += ["--report"] + rep
        return a

    OPTIONS = {
        "assemble": [["--mcmc-llk-cache-threshold", "-1"], ["--mcmc-llk-cache-threshold", "0"], ["--mcmc-fix-homozygous", "0.9"],
                     ["--haplotype-posterior-threshold", "0.05"], ["--mcmc-recombination-step-probability", "1.0"], ["--inbreeding", "0.1"],
                     ["--use-base-phred-scores"], ["--base-error-rate", "0.01"], ["--mapping-quality", "40"], ["--mcmc-dosage-step-probability", "0.5"]],
        "call": [["--inbreeding", "0.1"], ["--use-base-phred-scores"], ["--mapping-quality", "40"], ["--base-error-rate", "0.01"]],
        "call-exact": [["--inbreeding", "0.1"], ["--mapping-quality", "40"], ["--use-base-phred-scores"]],
        "call-pedigree": [["--gamete-error", "0.1"], ["--gamete-error", "0.5"], ["--mapping-quality", "40"]],
    }

    def option_args(self, program):
        """A tape-independent (config-chosen) handful of further CLI options: the property quantifies over configurations."""
        picks = self.cfg.get("opt_picks") or []
        opts = self.OPTIONS[program]
        out, used = [], set()
        for x in picks:
            if x < 0.45:
                continue
            o = opts[int((x - 0.45) / 0.55 * len(opts)) % len(opts)]
            if o[0] not in used:
                used.add(o[0])
                out += o
        return out

    def mcmc_args(self, program):
        cfg = self.cfg
        if program == "call-exact":
            return self.option_args(program)
        a = ["--mcmc-steps", str(cfg["steps"]), "--mcmc-burn", str(cfg["steps"] // 3), "--mcmc-chains", str(cfg["chains"]),
             "--mcmc-seed", str(cfg["mcmc_seed"])]
        if program == "assemble" and cfg["temperatures"] and cfg["temperatures"] != "file":
            a += ["--mcmc-temperatures"] + [str(t) for t in cfg["temperatures"]]
        return a + self.option_args(program)

    def argv(self, program, ds, cores, bed=None, hapvcf=None, region=None):
        a = ["mchap", program]
        if program == "assemble":
            if region is not None:
                c, s, e, name = region
                a += ["--region", "%s:%d-%d" % (c, s, e)] + (["--region-id", name] if name is not None else [])
            else:
                a += ["--targets", bed]
            a += ["--variants", ds["variants"], "--reference", ds["fasta"]]
        else:
            a += ["--haplotypes", hapvcf]
            if program == "call-pedigree":
                a += ["--sample-parents", self.pedigree_file(ds)]
        a += self.base_args(ds, program) + self.mcmc_args(program) + ["--cores", str(cores)]
        if program != "assemble":
            a = [x for x in a if x not in ()]
        return a

    def pedigree_file(self, ds):
        p = os.path.join(self.tmp, "pedigree.txt")
        if not os.path.exists(p):
            s = ds["samples"]
            with open(p, "w") as f:
                f.write("%s\t.\t.\n" % s[0])
                f.write("%s\t.\t.\n" % s[1])
                for k, x in enumerate(s[2:]):
                    f.write("%s\t%s\t%s\n" % (x, s[0], s[1] if k % 2 == 0 else "."))
        return p

    def run(self, program, argv, day, seed_rng=True, capacity=None, before_locus=None, policy="uniform"):
        import warnings
        ps = ProcessSim(self.ctx, proc_rng_init=seed_rng, capacity=capacity, policy=policy)
        with warnings.catch_warnings():
            warnings.simplefilter("ignore", category=UserWarning)
            return ps.run(self.program_cls(program), argv, day, before_locus=before_locus)

    def prior_work(self, kind):
        m = self.m
        np = m["np"]
        t = self.ctx.tape
        if kind == "raw":
            np.random.seed(t.int(0, 2 ** 31 - 1))
            m["jitutils"].seed_numba(t.int(0, 2 ** 31 - 1))
            for _ in range(t.int(0, 5)):
                np.random.rand()
        elif kind == "fit":
            reads = np.full((3, 2, 2), 0.5)
            reads[0, :, 0] = 0.9
            reads[0, :, 1] = 0.1
            m["amcmc"].DenovoMCMC(ploidy=2, n_alleles=[2, 2], steps=20, chains=1, random_seed=t.int(0, 10 ** 6), fix_homozygous=2.0).fit(reads)
        self.ctx.counters.inc("prior_work")


def in_fresh_process(fn):
    """fn() evaluated in a forked copy of this process (module-level state as it is NOW; whatever fn leaves behind is discarded)."""
    import pickle
    r, w = os.pipe()
    pid = os.fork()
    if pid == 0:
        code = 0
        try:
            os.close(r)
            try:
                data = pickle.dumps(("ok", fn()))
            except BaseException as e:  # noqa
                data = pickle.dumps(("err", "%s: %s" % (type(e).__name__, e)))
            with os.fdopen(w, "wb") as f:
                f.write(data)
        except BaseException:  # noqa
            code = 1
        os._exit(code)
    os.close(w)
    with os.fdopen(r, "rb") as f:
        data = f.read()
    os.waitpid(pid, 0)
    if not data:
        raise HarnessError("fresh-process evaluation returned nothing")
    kind, val = pickle.loads(data)
    if kind == "err":
        raise HarnessError("fresh-process evaluation failed: " + val)
    return val


def run_library(ctx):
    """The seeded sampler classes as a library: a fit's trace must not depend on what the process did before - other fits, raw
    draws from either generator, the model having been constructed long before it is fitted, or fitted before."""
    import random as _random
    m = bootstrap()
    np = m["np"]
    cfg = ctx.config
    rng = _random.Random(cfg["data_seed"])
    t = ctx.tape
    n_pos = rng.choice([2, 3])
    n_reads = rng.choice([2, 4, 6])

    def gen_reads():
        r = np.zeros((n_reads, n_pos, 2))
        for k in range(n_reads):
            for j in range(n_pos):
                a = rng.randrange(2)
                p = rng.choice([0.6, 0.7, 0.9])
                r[k, j, :] = 1 - p
                r[k, j, a] = p
        return r

    reads = gen_reads()
    counts = np.array([rng.choice([1, 1, 2]) for _ in range(n_reads)], dtype=np.int64)
    haps = np.array([[0] * n_pos, [1] * n_pos, [0] + [1] * (n_pos - 1), [1] + [0] * (n_pos - 1)], dtype=np.int8)
    seed = cfg["mcmc_seed"]
    kind = cfg["sampler"]

    def construct(sd):
        if kind == "assemble":
            return m["amcmc"].DenovoMCMC(ploidy=4, n_alleles=[2] * n_pos, steps=cfg["steps"], chains=cfg["chains"], random_seed=sd, fix_homozygous=2.0,
                                         temperatures=(0.3, 1.0))
        if kind == "call":
            return m["cclasses"].CallingMCMC(ploidy=4, haplotypes=haps, steps=cfg["steps"], chains=cfg["chains"], random_seed=sd)
        return m["pclasses"].PedigreeCallingMCMC(sample_ploidy=np.array([2, 2, 2]), sample_inbreeding=np.zeros(3), sample_parents=np.array([[-1, -1], [-1, -1], [0, 1]]),
                                                 gamete_tau=np.ones((3, 2), dtype=int), gamete_lambda=np.zeros((3, 2)), gamete_error=np.full((3, 2), 0.01),
                                                 haplotypes=haps, steps=cfg["steps"], annealing=5, chains=cfg["chains"], random_seed=sd)

    ped_reads = np.stack([reads, gen_reads(), gen_reads()])
    ped_counts = np.stack([counts, counts, counts])

    def fit(model, other=False):
        if kind == "pedigree":
            tr = model.fit(sample_reads=ped_reads if not other else ped_reads[::-1].copy(), sample_read_counts=ped_counts)
        else:
            tr = model.fit(reads if not other else reads[::-1].copy(), read_counts=counts)
        return np.array(tr.genotypes), (np.array(tr.llks) if hasattr(tr, "llks") and tr.llks is not None else None)

    def other_work():
        k = t.int(0, 3)
        if k in (0, 3):
            np.random.seed(t.int(0, 2 ** 31 - 1))
            m["jitutils"].seed_numba(t.int(0, 2 ** 31 - 1))
        if k in (1, 3):
            for _ in range(t.int(1, 5)):
                np.random.rand()
            m["jitutils"].random_choice(np.array([0.25, 0.25, 0.5]))
        if k == 2:
            fit(construct(t.int(0, 10 ** 6)), other=True)
        ctx.counters.inc("prior_work")

    def same(a, b):
        if not np.array_equal(a[0], b[0]):
            return False
        if a[1] is None or b[1] is None:
            return a[1] is None and b[1] is None
        return np.array_equal(np.nan_to_num(a[1], nan=-1e300), np.nan_to_num(b[1], nan=-1e300))

    if cfg.get("donor_first"):
        # two distinct reads that differ at the first site only; seen 30 + 30 times the site is heterozygous, seen 80 + 1 times it
        # is homozygous beyond any threshold.  The donor (80 + 1, other inbreeding) is the first fit this process ever makes with
        # these reads; the fit with 30 + 30 that follows must equal the same fit in a process that has never seen the donor.
        d_reads = np.zeros((2, n_pos, 2))
        d_reads[:, :, 0], d_reads[:, :, 1] = 0.99, 0.01
        d_reads[1, 0, 0], d_reads[1, 0, 1] = 0.01, 0.99
        c_main, c_donor = np.array([30, 30], dtype=np.int64), np.array([80, 1], dtype=np.int64)

        def d_construct(sd, inb):
            if kind == "assemble":
                return m["amcmc"].DenovoMCMC(ploidy=4, n_alleles=[2] * n_pos, steps=cfg["steps"], chains=cfg["chains"], random_seed=sd, fix_homozygous=0.9,
                                             inbreeding=inb, temperatures=(0.3, 1.0))
            if kind == "call":
                return m["cclasses"].CallingMCMC(ploidy=4, haplotypes=haps, inbreeding=inb, steps=cfg["steps"], chains=cfg["chains"], random_seed=sd)
            return construct(sd)

        def d_fit(model, c):
            if kind == "pedigree":
                tr = model.fit(sample_reads=np.stack([d_reads, d_reads, d_reads]), sample_read_counts=np.stack([c, c[::-1].copy(), c]))
            else:
                tr = model.fit(d_reads.copy(), read_counts=c)
            return np.array(tr.genotypes), (np.array(tr.llks) if hasattr(tr, "llks") and tr.llks is not None else None)

        fresh = in_fresh_process(lambda: d_fit(d_construct(seed, 0.0), c_main))
        d_fit(d_construct(t.int(0, 10 ** 6), 0.3), c_donor)
        got = d_fit(d_construct(seed, 0.0), c_main)
        ctx.counters.inc("library_fresh_process_baselines")
        ctx.log.add("library_donor_first", kind, int(got[0].sum()))
        if not same(got, fresh):
            raise Violation("fit_depends_on_history", "%s sampler, seed %r: a fit made after another model was fitted to the same distinct reads with other counts / inbreeding "
                            "differs from the same fit made in a fresh process" % (kind, seed), step=0, detail={"sampler": kind, "history": "donor_first", "seed": seed})
    base = fit(construct(seed))
    ctx.counters.inc("library_fits")
    for hi, h in enumerate(cfg["histories"]):
        ctx.step = hi + 1
        if h == "construct_early":
            mdl = construct(seed)
            other_work()
            got = fit(mdl)
        elif h == "refit":
            mdl = construct(seed)
            fit(mdl, other=t.chance(0.5))
            other_work()
            got = fit(mdl)
        else:
            m1, m2 = construct(seed), construct(t.int(0, 10 ** 6))
            fit(m2, other=True)
            got = fit(m1)
        ctx.counters.inc("library_histories")
        ctx.log.add("library", kind, h, int(got[0].sum()))
        if not same(got, base):
            raise Violation("fit_depends_on_history", "%s sampler, seed %r: the trace of fit() after the history '%s' differs from the trace of a model constructed and fitted at once"
                            % (kind, seed, h), step=hi + 1, detail={"sampler": kind, "history": h, "seed": seed})
    ctx.key("library", kind, seed, tuple(cfg["histories"]), int(base[0].sum()))


def execute(ctx):
    if ctx.config["program"] == "library":
        return run_library(ctx)
    b = Batch(ctx)
    try:
        run_batch(ctx, b)
    finally:
        b.close()


def run_batch(ctx, b):
    cfg = ctx.config
    program = cfg["program"]
    ds = b.build_dataset()
    if program == "call-pedigree" and (ds["uniform_ploidy"] is None):
        program = "call"
    ctx.counters.inc("programs_" + program.replace("-", "_"))
    # haplotype VCF for the call programs: the assemble output on the same data
    hap_header, hap_records = None, None
    if program != "assemble":
        r = b.run("assemble", b.argv("assemble", ds, 1, bed=ds["bed"]), DAY0, seed_rng=False)
        if r["error"] is not None:
            ctx.counters.inc("input_preparation_failed_skip")
            ctx.log.add("skip", repr(r["error"])[:200])
            return
        hap_header, hap_records = r["header"], [l for l in r["records"] if l]
        hv = b.path(".vcf")
        datasets.write_vcf_subset(hv, hap_header, hap_records)
    # canonical run
    if program == "assemble":
        # un-named target lines (BED3 lines among BED4 lines): the same loci are un-named in every run of the batch
        unnamed = cfg.get("unnamed") or []
        bed_loci = [(c, a, e, (None if (i < len(unnamed) and unnamed[i]) else name)) for i, (c, a, e, name) in enumerate(ds["loci"])]
        if any(x[3] is None for x in bed_loci):
            ctx.counters.inc("unnamed_target_lines")
        can = b.run(program, b.argv(program, ds, 1, bed=datasets.write_bed(b.path(".bed"), bed_loci)), DAY0, seed_rng=False)
        unit_keys = ["%s:%d" % (x[0], x[1] + 1) for x in ds["loci"]]
    else:
        can = b.run(program, b.argv(program, ds, 1, hapvcf=hv), DAY0, seed_rng=False)
        unit_keys = [rec_key(l)[2] for l in hap_records]
    if can["error"] is not None:
        # a loud failure on this input is not C08's subject (the property is an equivalence between runs)
        ctx.counters.inc("canonical_failed_skip")
        ctx.log.add("skip", repr(can["error"])[:200])
        return
    ctx.counters.inc("runs_total")
    can_records = {}
    for l in can["records"]:
        k = rec_key(l)[2]
        if k in can_records:
            raise Violation("duplicate_record", "canonical run emitted locus %s twice" % k, step=0)
        can_records[k] = l
    if can["trailing"] != "" or sorted(can_records) != sorted(unit_keys):
        raise Violation("missing_record", "canonical run emitted %d records for %d loci" % (len(can_records), len(unit_keys)), step=0,
                        detail={"got": sorted(can_records), "want": sorted(unit_keys)})
    if [rec_key(l)[2] for l in can["records"]] != unit_keys:
        raise Violation("order_single_core", "single-core run does not preserve input order", step=0)
    check_header(ctx, can, can, DAY0, 0)
    ctx.log.add("canonical", program, hashlib.sha256("\n".join(can["records"]).encode()).hexdigest())

    day = DAY0
    for vi, var in enumerate(cfg["variants"]):
        ctx.step = vi + 1
        if var["prior_work"]:
            b.prior_work(var["prior_work"])
        day += var["day_shift"]
        if var["day_shift"]:
            ctx.counters.inc("clock_jump")
        # loci for this run
        units = list(range(len(unit_keys)))
        if var["order"] == "shuffle":
            for i in range(len(units) - 1, 0, -1):
                j = ctx.tape.int(0, i)
                units[i], units[j] = units[j], units[i]
            ctx.counters.inc("locus_order")
        elif var["order"] == "reverse":
            units.reverse()
            ctx.counters.inc("locus_order")
        if var["subset"] == "empty":
            # no target at all: a header and nothing else, exit status 0
            units = []
            ctx.counters.inc("locus_subset_empty")
        elif var["subset"] is not None and len(units) > 1:
            keep = max(1, int(round(var["subset"] * len(units))))
            if keep < len(units):
                units = units[:keep]
                ctx.counters.inc("locus_subset")
        region = None
        cores = var["cores"]
        if var["region"] and program == "assemble" and units:
            units = units[:1]
            region = bed_loci[units[0]]
            ctx.counters.inc("region_single")
        want_keys = [unit_keys[u] for u in units]
        # failing locus
        fail_key = None
        before = None
        io_fault = None
        dsv = ds
        if var["fail"] and cfg["fail"] and region is None and units:
            fpos = min(len(units) - 1, int(cfg["fail"]["pos"] * len(units)))
            fail_key = want_keys[fpos]
            with_snv = [u for u in units if ds.get("locus_snvs") and ds["locus_snvs"][u]]
            if cfg["fail"]["kind"] == "real" and program == "assemble" and cfg["dataset"] == "synthetic" and with_snv:
                # the locus must have an SNV for an alignment to contradict: take the nearest such locus
                u_bad = min(with_snv, key=lambda u: abs(units.index(u) - fpos))
                fail_key = unit_keys[u_bad]
                dsv = real_bad_dataset(b, ds, u_bad)
                ctx.counters.inc("failing_locus_real")
            elif cfg["fail"]["kind"] == "io":
                # an I/O error while the alignments of that locus are read (deep inside the worker: the program's own
                # exception wrapping - SampleAssemblyError from OSError, LocusAssemblyError from that - is exercised)
                io_fault = (fail_key, {"OSError": OSError, "ValueError": ValueError, "EOFError": EOFError}[cfg["fail"].get("exc", "OSError")])
                ctx.counters.inc("failing_locus_io_error")
            else:
                def before(locus, _k=fail_key):
                    if locus_key(locus) == _k:
                        raise RuntimeError("injected failure at locus %s" % _k)
                ctx.counters.inc("failing_locus_injected")
        if program == "assemble":
            bed = datasets.write_bed(b.path(".bed"), [bed_loci[u] for u in units]) if region is None else None
            argv = b.argv(program, dsv, cores, bed=bed, region=region)
        else:
            hv2 = datasets.write_vcf_subset(b.path(".vcf"), hap_header, [hap_records[u] for u in units])
            argv = b.argv(program, dsv, cores, hapvcf=hv2)
        if var["capacity"]:
            ctx.counters.inc("small_stdout_buffer")
        bc = bootstrap()["baseclass"]
        real_erv = bc.extract_read_variants
        if io_fault is not None:
            def erv(locus, *a, _k=io_fault[0], _e=io_fault[1], **kw):
                if locus_key(locus) == _k:
                    raise _e("truncated file")
                return real_erv(locus, *a, **kw)
            bc.extract_read_variants = erv
        try:
            r = b.run(program, argv, day, seed_rng=var["proc_rng_init"], capacity=var["capacity"], before_locus=before, policy=var.get("policy", "uniform"))
        finally:
            bc.extract_read_variants = real_erv
        if multi_core(var):
            ctx.counters.inc("policy_" + var.get("policy", "uniform"))
        ctx.counters.inc("runs_total")
        multi = cores > 1
        if multi:
            ctx.counters.inc("multi_core_runs")
            ctx.counters.inc("schedule_choices", r["n_switch"])
            ipc = hashlib.sha256(repr(r["events"]).encode()).hexdigest()
            ctx.key("ipc", ipc)
            if cores > len(units):
                ctx.counters.inc("cores_gt_loci")
                ctx.counters.inc("empty_block")
        ctx.log.add("run", vi, cores, want_keys, fail_key, [e for e in r["events"] if e[1] in ("exit", "raise", "job.get", "put:post")][:60],
                    hashlib.sha256("\n".join(strip_header(r["header"]) + r["records"]).encode()).hexdigest(), type(r["error"]).__name__)
        check_run(ctx, program, r, can, can_records, want_keys, fail_key, day, multi, vi + 1)


def real_bad_dataset(b, ds, locus_index):
    """Same dataset plus one alignment (first sample) whose MD tag contradicts the SNV file at `locus_index`."""
    m = bootstrap()
    pysam = m["pysam"]
    c, a, e, name = ds["loci"][locus_index]
    snv = ds["locus_snvs"][locus_index]
    if not snv:
        raise HarnessError("real_bad_dataset called for a locus without SNVs")
    s0 = ds["samples"][0]
    src = ds["bams"][s0]
    dst = b.path(".bam")
    p0 = snv[0]
    with pysam.FastaFile(ds["fasta"]) as fa:
        # the extra alignment lies entirely inside the failing locus: if it reached into a neighbouring locus it would change
        # that locus' read counts relative to the canonical run (false alarm seen at soak seed 336)
        rl = min(20, e - a)
        st = min(max(a, p0 - 5), e - rl)
        seq = fa.fetch(c, st, st + rl)
    wrong = [x for x in "ACGT" if x != seq[p0 - st]][0]
    fake_ref = seq[: p0 - st] + wrong + seq[p0 - st + 1:]
    with pysam.AlignmentFile(src) as inp:
        hdr = inp.header.to_dict()
        rg = [g["ID"] for g in hdr["RG"] if g["SM"] == s0][0]
        recs = list(inp)
        seg = pysam.AlignedSegment(inp.header)
        seg.query_name = "BADREAD"
        seg.query_sequence = seq
        seg.flag = 0
        seg.reference_id = inp.get_tid(c)
        seg.reference_start = st
        seg.mapping_quality = 60
        seg.cigartuples = [(0, rl)]
        seg.query_qualities = pysam.qualitystring_to_array("I" * rl)
        seg.set_tag("RG", rg)
        seg.set_tag("MD", datasets.md_tag(fake_ref, seq))
        recs.append(seg)
        recs.sort(key=lambda x: (x.reference_id, x.reference_start))
        with pysam.AlignmentFile(dst, "wb", header=inp.header) as out:
            for x in recs:
                out.write(x)
    pysam.index(dst)
    d2 = dict(ds)
    d2["bams"] = dict(ds["bams"])
    d2["bam_files"] = [dst if f == src else f for f in ds["bam_files"]]
    d2["real_bad_locus"] = ds["loci"][locus_index][3]
    return d2


def check_header(ctx, r, can, day, step):
    if strip_header(r["header"]) != strip_header(can["header"]):
        raise Violation("header_differs", "header differs from the canonical header beyond the date and command lines", step=step)
    dates = [l for l in r["header"] if l.startswith("##fileDate")]
    if dates != [filedate(day)]:
        raise Violation("header_differs", "##fileDate lines %r, simulated date is %s" % (dates, filedate(day)), step=step)
    if len([l for l in r["header"] if l.startswith("##commandline")]) != 1:
        raise Violation("header_differs", "header does not carry exactly one ##commandline line", step=step)
    ctx.counters.inc("header_compared")


def error_chain(e):
    out = []
    while e is not None and len(out) < 6:
        out.append(repr(e)[:300])
        rt = getattr(e, "_sim_remote_traceback", None)
        if rt:
            out.append(rt[:1500])
        e = e.__cause__ or e.__context__
    return out


def check_run(ctx, program, r, can, can_records, want_keys, fail_key, day, multi, step):
    lines = r["out"].split("\n")
    trailing = lines.pop()
    body = [l for l in lines if not l.startswith("#")]
    # the header precedes every record, exactly once
    hdr_idx = [i for i, l in enumerate(lines) if l.startswith("#")]
    if hdr_idx and hdr_idx != list(range(len(hdr_idx))):
        raise Violation("header_differs", "header lines are interleaved with / repeated after records", step=step)
    check_header(ctx, r, can, day, step)
    seen = {}
    for l in body:
        k = rec_key(l)[2]
        if k not in can_records or l != can_records[k]:
            if k in can_records and k in want_keys and not l.startswith(can_records[k]) and not can_records[k].startswith(l):
                raise Violation("record_differs",
                                "record for locus %s differs from the canonical single-core record (cores/order/history dependence)" % k,
                                step=step, detail={"locus": k, "multi_core": multi, "got": l[:400], "want": can_records[k][:400]})
            raise Violation("line_not_intact", "output line is not an intact record of a requested locus: %r" % l[:120], step=step,
                            detail={"multi_core": multi})
        if k in seen:
            raise Violation("duplicate_record", "locus %s written twice" % k, step=step, detail={"multi_core": multi})
        seen[k] = l
        ctx.counters.inc("records_compared")
    if trailing != "":
        # narrow relaxation: in a run that FAILS, the writer may be cut off while it is writing its last
        # line (the main process is already exiting non-zero); that tail must still be the beginning of the
        # canonical record of a requested, not yet written, non-failing locus - never garbage.
        ok_tail = fail_key is not None and r["error"] is not None and any(
            k != fail_key and k not in seen and can_records[k].startswith(trailing) for k in want_keys)
        if not ok_tail:
            raise Violation("line_not_intact", "output does not end with a newline-terminated record: %r" % trailing[:80], step=step)
        ctx.counters.inc("torn_tail_on_failure")
    extra = set(seen) - set(want_keys)
    if extra:
        raise Violation("line_not_intact", "records for loci that were not requested: %r" % sorted(extra), step=step)
    if fail_key is None:
        if r["error"] is not None:
            raise Violation("unexpected_failure", "run without any fault raised %r" % (r["error"],), step=step, detail={"error": repr(r["error"])[:300], "chain": error_chain(r["error"])})
        missing = [k for k in want_keys if k not in seen]
        if missing:
            raise Violation("missing_record", "loci silently omitted: %r" % missing, step=step, detail={"multi_core": multi})
        if not multi and [rec_key(l)[2] for l in body] != want_keys:
            raise Violation("order_single_core", "single-core run does not preserve the order of the targets", step=step)
    else:
        if fail_key in seen:
            raise Violation("failed_locus_written", "a record was written for the failing locus %s" % fail_key, step=step)
        if r["error"] is None:
            raise Violation("silent_omission", "locus %s failed but run_stdout() returned normally (exit status 0) with %d of %d records"
                            % (fail_key, len(seen), len(want_keys)), step=step, detail={"multi_core": multi})
        ctx.counters.inc("failing_locus_in_worker" if multi else "failing_locus_single_core")


def sut_exception_is_violation(e, ctx):
    return False


def shrink_candidates(cfg, violation):
    out = []
    step = (violation or {}).get("step")
    if cfg["program"] == "library":
        hs = cfg["histories"]
        if isinstance(step, int) and 1 <= step <= len(hs) and len(hs) > 1:
            out.append(dict(cfg, histories=[hs[step - 1]]))
        if cfg["chains"] > 1:
            out.append(dict(cfg, chains=1))
        return out
    vs = cfg["variants"]
    if isinstance(step, int) and step >= 1 and len(vs) > 1:
        c = dict(cfg)
        c["variants"] = [vs[step - 1]]
        out.append(c)
    for i in range(len(vs)):
        if len(vs) > 1:
            c = dict(cfg)
            c["variants"] = vs[:i] + vs[i + 1:]
            out.append(c)
    for i, v in enumerate(vs):
        for k, simple in (("policy", "uniform"), ("prior_work", None), ("capacity", None), ("day_shift", 0), ("subset", None), ("order", "file"), ("proc_rng_init", False), ("region", False)):
            if v.get(k) != simple:
                c = dict(cfg)
                c["variants"] = [dict(x) for x in vs]
                c["variants"][i][k] = simple
                out.append(c)
        if v["cores"] > 2:
            c = dict(cfg)
            c["variants"] = [dict(x) for x in vs]
            c["variants"][i]["cores"] = 2
            out.append(c)
    if cfg["report"]:
        out.append(dict(cfg, report=[]))
    if cfg.get("opt_picks"):
        out.append(dict(cfg, opt_picks=[]))
    if cfg["chains"] > 1:
        out.append(dict(cfg, chains=1))
    if cfg["temperatures"]:
        out.append(dict(cfg, temperatures=None))
    if cfg["dataset"] != "simple" and not (cfg["fail"] and cfg["fail"]["kind"] == "real"):
        out.append(dict(cfg, dataset="simple"))
    return out


def post_batch(tier, base_seed, results):
    """Thorough tier: (a) re-execute a sample of batches in a fresh interpreter under another PYTHONHASHSEED -
    event logs (which hash every output) must be identical; (b) real-process fidelity probe: the three
    behaviours the multiprocessing stub assumes are confirmed against real `multiprocessing`."""
    import subprocess
    import sys
    from .core import VERIF_DIR, RunContext, Tape, EventLog, Counters
    out = {"evidence": {}, "violations": []}
    # (a) hash seed
    n = min(24 if tier == "thorough" else 12, len(results))
    env = dict(os.environ, VERIF_HASHSEED="4242", VERIF_SEED=str(base_seed), VERIF_TIER=tier)
    env.pop("PYTHONHASHSEED", None)
    p = subprocess.run([os.path.join(VERIF_DIR, "check"), ID, "--tier", tier, "--runs", str(n), "--print-shas", "--no-evidence"],
                       capture_output=True, text=True, env=env, timeout=3 * 3600)
    other = {}
    for line in p.stdout.splitlines():
        if line.startswith("SHA "):
            _, i, sha = line.split()
            other[int(i)] = sha
    mine = {r["index"]: r["sha"] for r in results if r["index"] < n}
    if len(other) != n:
        raise HarnessError("hash-seed re-execution produced %d of %d hashes: %s" % (len(other), n, p.stdout[-800:]))
    diff = sorted(i for i in other if other[i] != mine.get(i))
    out["evidence"]["hashseed_reexecution"] = {"batches": n, "PYTHONHASHSEED": [0, 4242], "mismatches": len(diff)}
    if diff:
        out["violations"].append({"class": "hashseed_dependence", "message": "batches %r give different outputs / event logs under PYTHONHASHSEED=4242" % diff[:8],
                                  "detail": {"indices": diff}, "tier": tier, "base_seed": base_seed, "n": n,
                                  "sha_hashseed_0": {str(i): mine[i] for i in diff}, "sha_hashseed_4242": {str(i): other[i] for i in diff},
                                  "rerun": "VERIF_SEED=%d VERIF_HASHSEED=4242 ./check C08 --tier %s --runs %d --print-shas --no-evidence  # compare with VERIF_HASHSEED=0" % (base_seed, tier, n)})
    # (b) real processes
    if tier != "thorough":
        out["evidence"]["real_process_fidelity_probe"] = "thorough tier only"
        return out
    out["evidence"]["real_process_fidelity_probe"] = fidelity_probe()
    bad = [k for k, v in out["evidence"]["real_process_fidelity_probe"].items() if isinstance(v, dict) and v.get("ok") is False]
    if bad:
        raise HarnessError("real multiprocessing contradicts an assumption of the stub: %r" % {k: out["evidence"]["real_process_fidelity_probe"][k] for k in bad})
    return out


def replay_post(doc):
    """Replay of a hashseed_dependence finding: re-execute the same batches under both hash seeds in fresh
    interpreters; reproduced iff the hashes of the recorded batches differ again."""
    import subprocess
    from .core import VERIF_DIR
    shas = {}
    for hs in ("0", "4242"):
        env = dict(os.environ, VERIF_HASHSEED=hs, VERIF_SEED=str(doc["base_seed"]), VERIF_TIER=doc["tier"])
        env.pop("PYTHONHASHSEED", None)
        p = subprocess.run([os.path.join(VERIF_DIR, "check"), ID, "--tier", doc["tier"], "--runs", str(doc["n"]), "--print-shas", "--no-evidence"],
                           capture_output=True, text=True, env=env, timeout=3 * 3600)
        shas[hs] = {l.split()[1]: l.split()[2] for l in p.stdout.splitlines() if l.startswith("SHA ")}
    diff = sorted(i for i in shas["0"] if shas["0"].get(i) != shas["4242"].get(i))
    want = sorted(doc["sha_hashseed_0"])
    exact = all(shas["0"].get(i) == doc["sha_hashseed_0"][i] and shas["4242"].get(i) == doc["sha_hashseed_4242"][i] for i in want)
    return bool(diff), exact, "batches differing between PYTHONHASHSEED 0 and 4242: %r" % diff


def fidelity_probe():
    """Real subprocesses, real multiprocessing, schedule-independent oracles (cannot flake)."""
    import subprocess
    import sys
    from .core import RunContext, Tape, EventLog, Counters
    import random
    m = bootstrap()
    ctx = RunContext({"fail": None}, Tape(rng=random.Random(1)), EventLog(), Counters(), set())
    b = Batch(ctx)
    res = {}
    try:
        ds = datasets.generate(os.path.join(b.tmp, "ds"), 424242, n_samples=3, n_loci=6, multi_sample_bam=False)
        ds["ploidy_arg"] = ds["ploidy_file"]

        def real(cores, bams):
            argv = ["mchap", "assemble", "--bam"] + bams + ["--ploidy", ds["ploidy_file"], "--targets", ds["bed"], "--variants", ds["variants"],
                                                              "--reference", ds["fasta"], "--mcmc-steps", "60", "--mcmc-burn", "20", "--mcmc-seed", "7", "--cores", str(cores)]
            code = "import sys; sys.path.insert(0, %r); sys.argv = %r; from mchap.application.cli import main; main()" % (REPO, argv)
            p = subprocess.run([sys.executable, "-W", "ignore", "-c", code], capture_output=True, text=True, timeout=1800,
                               env=dict(os.environ, NUMBA_DISABLE_JIT="0"))
            recs = [l for l in p.stdout.split("\n") if l and not l.startswith("#")]
            return p.returncode, recs, p.stderr[-300:]

        rc1, r1, _ = real(1, ds["bam_files"])
        rc3, r3, e3 = real(3, ds["bam_files"])
        res["no_fault_multiset_equals_single_core"] = {"ok": rc1 == 0 and rc3 == 0 and sorted(r1) == sorted(r3) and len(r1) == len(ds["loci"]),
                                                        "records": len(r3), "exit": [rc1, rc3]}
        # the simulated run of the same command gives the same records
        sim = b.run("assemble", ["mchap", "assemble", "--bam"] + ds["bam_files"] + ["--ploidy", ds["ploidy_file"], "--targets", ds["bed"], "--variants", ds["variants"],
                                 "--reference", ds["fasta"], "--mcmc-steps", "60", "--mcmc-burn", "20", "--mcmc-seed", "7", "--cores", "3"], DAY0)
        res["simulated_output_equals_real_output"] = {"ok": sim["error"] is None and sorted(sim["records"]) == sorted(r3)}
        # a failing locus in a worker surfaces from job.get(): real run exits non-zero, failing locus absent
        k = [i for i, sn in enumerate(ds["locus_snvs"]) if sn][len([1 for sn in ds["locus_snvs"] if sn]) // 2]
        d2 = real_bad_dataset(b, ds, k)
        rcf, rf, ef = real(3, d2["bam_files"])
        name = ds["loci"][k][3]
        res["task_exception_surfaces_from_job_get"] = {"ok": rcf != 0 and all(l.split("\t")[2] != name for l in rf) and len(set(rf)) == len(rf),
                                                        "exit": rcf, "records_written": len(rf), "of": len(ds["loci"])}
    finally:
        b.close()
    return res


def evidence(tier, results, counters):
    return {
        "distinct_interleavings_measure": "distinct_nontrivial = number of distinct SHA-256 hashes of the IPC event sequence over all multi-core runs of this check",
        "simulated_time": "each batch covers up to 7 simulated calendar days spread over -30..+365 day jumps; the clock is read once per program run (header); "
                          "%d clock jumps fired" % counters.get("clock_jump", 0),
    }
