"""Determinism self-test: the same run seeds must give identical event-log
hashes (a) under PYTHONHASHSEED 0 and another value, (b) with 1 and 16 worker
processes, (c) in fresh interpreters.  Usage:

    ./check selftest determinism [--props C01,C02,...] [--runs N]

Exit 0 if every hash agrees, 2 otherwise (a self-test failure is a harness
defect, never a property violation).
"""
import argparse
import os
import subprocess
import sys

VERIF_DIR = os.path.dirname(os.path.dirname(os.path.abspath(__file__)))


def shas(prop, runs, hashseed, workers, seed):
    env = dict(os.environ)
    env["VERIF_HASHSEED"] = str(hashseed)
    env["VERIF_SEED"] = str(seed)
    env.pop("PYTHONHASHSEED", None)
    p = subprocess.run(
        [os.path.join(VERIF_DIR, "check"), prop, "--runs", str(runs), "--workers", str(workers), "--print-shas", "--no-evidence"],
        capture_output=True, text=True, env=env, timeout=3600,
    )
    out = {}
    for line in p.stdout.splitlines():
        if line.startswith("SHA "):
            _, i, s = line.split()
            out[int(i)] = s
    return p.returncode, out, p.stdout[-2000:]


def main(argv):
    ap = argparse.ArgumentParser()
    ap.add_argument("what", choices=["determinism"])
    ap.add_argument("--props", default="C01,C02,C09,C14,C15,C18,C08,C10")
    ap.add_argument("--runs", type=int, default=200)
    ap.add_argument("--seed", type=int, default=777)
    a = ap.parse_args(argv)
    bad = 0
    for prop in a.props.split(","):
        base = None
        for hs, w in ((0, 16), (0, 1), (4242, 16), (0, 7)):
            rc, s, tail = shas(prop, a.runs, hs, w, a.seed)
            if len(s) != a.runs:
                print("SELFTEST %s hashseed=%d workers=%d: got %d of %d hashes (rc=%d)\n%s" % (prop, hs, w, len(s), a.runs, rc, tail))
                bad += 1
                continue
            if base is None:
                base = s
                print("SELFTEST %s baseline %d runs rc=%d" % (prop, len(s), rc))
            else:
                diff = [i for i in s if s[i] != base.get(i)]
                print("SELFTEST %s hashseed=%d workers=%d: %d mismatches" % (prop, hs, w, len(diff)))
                if diff:
                    bad += 1
                    print("   first mismatching run indices:", diff[:10])
    print("SELFTEST determinism:", "OK" if not bad else "FAILED (%d)" % bad)
    return 0 if not bad else 2
