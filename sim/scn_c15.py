"""C15 - each iteration sweeps every site once; intervals partition; fixed sites restored."""
import math
import random as _random

from . import refmodel as ref
from . import wl_assemble
from . import wl_cli
from .core import Violation
from .engine_k import Seams, SimRandom, bind, bootstrap

ID = "C15"
ENGINE = "K"
RUNS = {"quick": 6000, "thorough": 100000}
BATCH_WALL_CAP = {"quick": 1500, "thorough": 6 * 3600}
RUN_WALL_CAP = 600
RECHECK = {"quick": 12, "thorough": 200}
MIN_BUDGET = 60
MIN_WALL = 240.0

RULE = (
    "one evaluation = one simulated run of one of five sub-scenarios (`mchap assemble --mcmc-fix-homozygous` end to end on files written for the run; sweep with recording stub for 1..200 SNVs; sweep inside the real sampler; "
    "random_breaks under scripted / tape-driven draw policies; DenovoMCMC.fit with homozygous-site fixing); "
    "distinct_nontrivial = distinct (sub-scenario, ploidy, number of SNVs, shuffle order hash | (breaks, n, result) | (threshold bucket, fixed-column pattern, trace hash))"
)
FAULT_KEYS = ["shuffle", "long_locus", "policy_first", "policy_last", "policy_adjacent", "policy_tape", "adversarial_choice", "row_permute"]
PROBE_KEYS = ["sweep_over_256", "impossible_breaks_refused", "saturated_posterior_at_threshold_1", "sweeps_checked", "sweep_over_127", "partitions_checked", "max_breaks", "fixing_checked", "all_fixed", "some_fixed", "none_fixed",
              "threshold_near_skip", "fixed_multiallelic", "fix_after_earlier_fit", "fix_after_fit_of_same_reads_other_counts", "cli_fixing_checked", "cli_some_fixed", "cli_all_fixed", "cli_none_fixed"]
OPTIONAL_PROBES = {"quick": ("threshold_near_skip",), "thorough": ()}
COMPONENTS = {
    "real": ["mchap.assemble.mutation.compound_step", "mchap.assemble.structural.random_breaks", "mchap.assemble.mcmc.DenovoMCMC.fit/_mcmc/_homozygosity_probabilities/_denovo_assembler",
             "mchap.assemble.snpcalling.snp_posterior", "cli sub-scenario: mchap.application.assemble.program end to end (argument parsing, pysam, read encoding, DenovoMCMC construction), single core", "all executed as plain Python (NUMBA_DISABLE_JIT=1)"],
    "stub": ["mutation.base_step replaced by a pure recorder in the `long` sub-scenario only (sweep accounting for 1..200 SNVs)",
             "numpy.random.* and random_choice (tape / scripted policies)"],
}
ASSUMPTIONS = [
    "thresholds <= 0.5: a site is fixed when any homozygote reaches the threshold; when two do, which allele is re-inserted is undefined by the statement and only constancy of the column is required",
    "comparisons within 1e-9 of the threshold are skipped and counted",
    "numba compiles compound_step / random_breaks faithfully (observed interpreted); the compiled int dtype behaviour of the sweep table is identical to NumPy's",
]


def prepare(tier):
    bootstrap()


def gen_config(rng, tier, index=0):
    if rng.random() < 0.04:
        cfg = wl_cli.gen_assemble_config(rng, tier)
        cfg["kind"] = "cli"
        return cfg
    kind = rng.choice(["long", "long", "sampler", "breaks", "breaks", "fix", "fix"])
    if kind == "long":
        n = rng.choice([1, 2, 7, 50, 100, 126, 127, 128, 129, 140, 160, 200, rng.randint(1, 200), 255, 256, 257, 300, 511, 512, 513, 700, rng.randint(200, 1100)])
        return {"kind": "long", "ploidy": rng.choice([1, 2, 3, 4, 6, 8]), "n_base": n, "sweeps": rng.randint(1, 3)}
    if kind == "sampler":
        cfg = wl_assemble.gen_config(rng, tier, "db")
        cfg["kind"] = "sampler"
        cfg["read_style"] = "plain"
        cfg["long_locus"] = False
        if cfg["initial"] in ("truth_rows", "near_dup_head", "near_dup_tail"):
            cfg["initial"] = "random"
        cfg["ploidy"] = rng.choice([1, 2, 3, 4, 6, 8])
        cfg["n_alleles"] = [rng.choice([2, 2, 3]) for _ in range(rng.choice([1, 2, 3, 5, 8, 12]))]
        cfg["n_reads"] = rng.choice([1, 2, 3])
        cfg["steps"] = rng.randint(1, 3)
        cfg["chains"] = 1
        cfg["n_intervals"] = None
        cfg["cache"] = {"mode": "off", "initial_size": 64, "max_size": 2 ** 16}
        cfg["entry"] = "direct"
        if cfg["ploidy"] == 1:
            cfg["initial"] = "random"
        return cfg
    if kind == "breaks":
        n = rng.choice([1, 2, 3, 5, 10, 50, 127, 128, 200, rng.randint(1, 200), 255, 256, 257, 300, 700, rng.randint(200, 1100)])
        b = rng.choice([0, n - 1, max(0, n - 2), rng.randint(0, n - 1), rng.randint(0, n - 1), rng.randint(0, n - 1), n, n + rng.choice([1, 2, 5])])
        return {"kind": "breaks", "n": n, "breaks": b, "policy": rng.choice(["tape", "tape", "first", "last", "adjacent"])}
    n_pos = rng.choice([1, 2, 3, 4, 5])
    return {
        "kind": "fix",
        "ploidy": rng.choice([2, 2, 3, 4, 6]),
        "n_alleles": [rng.choice([2, 2, 2, 3, 4]) for _ in range(n_pos)],
        "hom_cols": [rng.random() < 0.5 for _ in range(n_pos)],
        "depth": rng.choice([0, 1, 3, 6, 12, 25, 60, 120]),
        "fix_homozygous": rng.choice([0.51, 0.6, 0.9, 0.99, 0.999, 0.999, 0.999999, 1.0, 1.0, 1.1, 0.3, 0.45]),
        "inbreeding": rng.choice([0.0, 0.0, 0.1, 0.5]),
        "counts": rng.choice(["none", "ints", "skewed"]),
        "data_seed": rng.randrange(2 ** 31),
        "steps": rng.randint(1, 4),
        "chains": rng.choice([1, 2]),
        "temperatures": rng.choice([[1.0], [0.2, 1.0]]),
        # history: the same model object was fitted before, on other reads of the same locus (another sample)
        "refit": rng.random() < 0.3,
        # history: ANOTHER model was fitted earlier in the process to byte-identical reads with other counts / inbreeding
        # (two samples or loci with the same distinct reads at different depths): whatever is remembered between fits must be
        # keyed by everything the screen depends on
        "prefit_same_reads": rng.random() < 0.3,
    }


# ---------------------------------------------------------------------------


def execute(ctx):
    kind = ctx.config["kind"]
    if kind == "long":
        run_long(ctx)
    elif kind == "sampler":
        sim = wl_assemble.AssembleSim(ctx, ctx.config, checks=("sweep",))
        sim.run()
        for s in sim.sweeps:
            ctx.key("sampler", s["ploidy"], s["n_base"], tuple(s["visits"]))
    elif kind == "breaks":
        run_breaks(ctx)
    elif kind == "cli":
        run_cli(ctx)
    else:
        run_fix(ctx)


def run_long(ctx):
    m = bootstrap()
    np = m["np"]
    cfg = ctx.config
    mutation = m["mutation"]
    rng = SimRandom(ctx)
    pl, n = cfg["ploidy"], cfg["n_base"]
    visits = []

    def stub_base_step(genotype, reads, llk, h, j, n_alleles, log_unique_haplotypes, inbreeding=0, temp=1, read_counts=None, cache=None):
        visits.append((int(h), int(j)))
        return llk, cache

    g = np.zeros((pl, n), dtype=np.int8)
    reads = np.full((1, n, 2), np.nan)
    n_alleles = np.full(n, 2, dtype=np.int8)
    ctx.counters.inc("long_locus")
    with Seams() as seams:
        rng.install(seams, [mutation])
        seams.set(mutation, "base_step", stub_base_step)
        for s in range(cfg["sweeps"]):
            ctx.step = s
            del visits[:]
            mutation.compound_step(genotype=g, reads=reads, llk=0.0, n_alleles=n_alleles, log_unique_haplotypes=float(n * math.log(2)),
                                   inbreeding=0.0, temp=1.0, read_counts=None, cache=None)
            ctx.log.add("sweep", pl, n, visits)
            check_sweep(ctx, pl, n, visits)
            ctx.key("long", pl, n, tuple(visits[:16]))
    if n > 127:
        ctx.counters.inc("sweep_over_127")
    if n > 256:
        ctx.counters.inc("sweep_over_256")


def check_sweep(ctx, pl, n, visits):
    want = sorted((h, j) for h in range(pl) for j in range(n))
    got = sorted(visits)
    ctx.counters.inc("sweeps_checked")
    if got != want:
        ws = set(want)
        missing = sorted(ws - set(got))
        cnt = {}
        for v in got:
            cnt[v] = cnt.get(v, 0) + 1
        bad = sorted(v for v in cnt if cnt[v] > 1 or v not in ws)
        raise Violation("sweep_not_exactly_once",
                        "mutation sweep visited %d (h,j) pairs, expected each of %d exactly once; missing e.g. %r, repeated/illegal e.g. %r"
                        % (len(got), len(want), missing[:4], bad[:4]),
                        step=ctx.step, detail={"n_base": n, "ploidy": pl, "over_127": n > 127})


def run_breaks(ctx):
    m = bootstrap()
    np = m["np"]
    cfg = ctx.config
    structural = m["structural"]
    rng = SimRandom(ctx)
    policy = cfg["policy"]
    ctx.counters.inc("policy_" + policy)
    state = {"last": None}

    def choice(options):
        options = np.asarray(options)
        if policy == "first":
            v = options[0]
        elif policy == "last":
            v = options[-1]
        elif policy == "adjacent" and state["last"] is not None:
            # the option closest to the previously chosen point
            v = options[int(np.argmin(np.abs(options - state["last"])))]
        else:
            v = options[ctx.tape.int(0, len(options) - 1)]
        state["last"] = int(v)
        return v

    with Seams() as seams:
        rng.install(seams, [])
        seams.set(np.random, "choice", choice)
        if cfg["breaks"] >= cfg["n"]:
            # n SNVs cannot be cut into more than n non-empty intervals: the only acceptable outcomes are a
            # loud refusal or (impossible) a true partition - never a silent set with empty / overlapping intervals
            try:
                out = structural.random_breaks(cfg["breaks"], cfg["n"])
            except ValueError:
                ctx.counters.inc("impossible_breaks_refused")
                ctx.log.add("breaks_refused", cfg["breaks"], cfg["n"])
                ctx.key("breaks_refused", cfg["breaks"], cfg["n"])
                return
        else:
            out = structural.random_breaks(cfg["breaks"], cfg["n"])
    ctx.log.add("breaks", cfg["breaks"], cfg["n"], out)

    class _S:
        pass

    s = _S()
    s.np = np
    s.ctx = ctx
    wl_assemble.check_partition(s, cfg["breaks"], cfg["n"], out)
    if cfg["breaks"] == cfg["n"] - 1:
        ctx.counters.inc("max_breaks")
    ctx.key("breaks", cfg["breaks"], cfg["n"], tuple(int(v) for v in np.asarray(out).ravel()[:40]))


def gen_fix_reads(cfg):
    np = bootstrap()["np"]
    rng = _random.Random(cfg["data_seed"])
    n_alleles = cfg["n_alleles"]
    n_pos = len(n_alleles)
    amax = max(n_alleles)
    pl = cfg["ploidy"]
    truth = []
    for h in range(pl):
        truth.append([0] * n_pos)
    for j in range(n_pos):
        if cfg["hom_cols"][j]:
            a = rng.randrange(n_alleles[j])
            for h in range(pl):
                truth[h][j] = a
        else:
            for h in range(pl):
                truth[h][j] = rng.randrange(n_alleles[j])
    depth = cfg["depth"]
    reads = np.zeros((depth, n_pos, amax))
    for r in range(depth):
        hap = rng.choice(truth)
        for j in range(n_pos):
            if rng.random() < 0.1:
                reads[r, j, :] = np.nan
                continue
            p = rng.choice([0.99, 0.999])
            a = hap[j] if rng.random() < 0.98 else rng.randrange(n_alleles[j])
            reads[r, j, : n_alleles[j]] = (1 - p) / 3
            reads[r, j, a] = p
    counts = None
    if cfg["counts"] == "skewed" and n_pos:
        # two distinct reads seen 30 times each carry the truth, three distinct reads seen once each carry another allele at the
        # homozygous sites: the weighted evidence is overwhelming for the truth, the unweighted mean of distinct reads is not
        reads = np.zeros((5, n_pos, amax))
        for r in range(5):
            hap = truth[r % pl]
            for j in range(n_pos):
                a = hap[j]
                if r >= 2 and cfg["hom_cols"][j]:
                    a = (a + 1) % n_alleles[j]
                p = 0.99 if r % 2 else 0.999
                reads[r, j, : n_alleles[j]] = (1 - p) / 3
                reads[r, j, a] = p
        return reads, np.array([30, 30, 1, 1, 1], dtype=np.int64)
    if cfg["counts"] == "ints" and depth > 0:
        counts = np.array([rng.choice([1, 2, 4]) for _ in range(depth)], dtype=np.int64)
    return reads, counts


def run_fix(ctx):
    m = bootstrap()
    np = m["np"]
    cfg = ctx.config
    amcmc = m["amcmc"]
    reads, counts = gen_fix_reads(cfg)
    n_alleles = cfg["n_alleles"]
    n_pos = len(n_alleles)
    thr = cfg["fix_homozygous"]
    F = cfg["inbreeding"]
    pl = cfg["ploidy"]
    counts_l = None if counts is None else [int(c) for c in counts]
    # independent single-SNV posterior
    if len(reads):
        cols = [[reads[r, j, :].tolist() for r in range(len(reads))] for j in range(n_pos)]
    else:
        cols = [[[float("nan")] * max(n_alleles)] for _ in range(n_pos)]
    fixed_allele = {}
    near = False
    for j in range(n_pos):
        hp, margin = ref.snv_homozygosity(cols[j], counts_l if len(reads) else None, n_alleles[j], pl, F, with_margin=True)
        for a, p in enumerate(hp):
            if p == 1.0 and thr == 1.0 and margin < -45.0:
                # saturated: every other genotype is below 3e-20 of the total, so any float64 normalisation
                # gives exactly 1.0, which reaches a threshold of 1.0
                fixed_allele[j] = a
                ctx.counters.inc("saturated_posterior_at_threshold_1")
                continue
            if abs(p - thr) < 1e-9:
                near = True
            if p >= thr:
                # thresholds below 0.5: two homozygotes can both reach it; the site is fixed, which allele is undefined (None)
                fixed_allele[j] = a if j not in fixed_allele else None
    if near:
        ctx.counters.inc("threshold_near_skip")
        return
    het = [j for j in range(n_pos) if j not in fixed_allele]
    g0 = None

    inner = []  # per chain: list of cold states per iteration, observed at the seam
    seen = {"calls": []}
    real_denovo = amcmc._denovo_assembler
    rng = SimRandom(ctx)
    sim = wl_assemble.AssembleSim(ctx, dict(wl_assemble.gen_config(_random.Random(1), "quick"), n_alleles=n_alleles, ploidy=pl, n_reads=0,
                                            cache={"mode": "off", "initial_size": 64, "max_size": 2 ** 16}, row_permute=False, adv_rate=0.0),
                                  checks=("sweep",))
    sim.rng = rng

    def w_denovo(**kw):
        seen["calls"].append({"reads": np.array(kw["reads"]).copy(), "n_alleles": [int(a) for a in kw["n_alleles"]]})
        return sim.w_denovo(**kw)

    with Seams() as seams:
        sim.install(seams)
        seams.set(amcmc, "_denovo_assembler", w_denovo)
        model = amcmc.DenovoMCMC(ploidy=pl, n_alleles=list(n_alleles), inbreeding=F, steps=cfg["steps"], chains=cfg["chains"],
                                 fix_homozygous=thr, temperatures=tuple(cfg["temperatures"]), random_seed=3, llk_cache_threshold=-1)
        if cfg.get("prefit_same_reads") and len(reads) > 1:
            if counts is not None and len(set(int(c) for c in counts)) > 1:
                counts_b = np.array(counts)[::-1].copy()
            else:
                counts_b = np.array([1 + 29 * (i % 2) for i in range(len(reads))], dtype=np.int64)
            other_model = amcmc.DenovoMCMC(ploidy=pl, n_alleles=list(n_alleles), inbreeding=(0.5 if F < 0.25 else 0.0), steps=1, chains=1,
                                           fix_homozygous=thr, temperatures=(1.0,), random_seed=4, llk_cache_threshold=-1)
            other_model.fit(reads.copy(), read_counts=counts_b)
            ctx.counters.inc("fix_after_fit_of_same_reads_other_counts")
            seen["calls"] = []
            del sim.history[:]
        if cfg.get("refit"):
            other = dict(cfg, data_seed=cfg["data_seed"] ^ 0x5A5A5A, hom_cols=[not h for h in cfg["hom_cols"]], depth=max(cfg["depth"], 12))
            reads_a, counts_a = gen_fix_reads(other)
            model.fit(reads_a, read_counts=counts_a)
            ctx.counters.inc("fix_after_earlier_fit")
            seen["calls"] = []
            del sim.history[:]
        trace = model.fit(reads, read_counts=counts, initial=g0)
    ctx.counters.inc("fixing_checked")
    ctx.counters.inc("all_fixed" if not het else ("some_fixed" if fixed_allele else "none_fixed"))
    if any(n_alleles[j] > 2 for j in fixed_allele):
        ctx.counters.inc("fixed_multiallelic")
    G = np.asarray(trace.genotypes)
    if G.shape != (cfg["chains"], cfg["steps"], pl, n_pos):
        raise Violation("fixed_sites", "trace shape %r, expected %r" % (G.shape, (cfg["chains"], cfg["steps"], pl, n_pos)), step=0)
    # 1. exactly the non-fixed columns were handed to the sampler
    if not het:
        if seen["calls"]:
            raise Violation("fixed_sites", "all sites are fixed by the single-SNV posterior but the sampler was still run", step=0,
                            detail={"threshold": thr})
    else:
        if len(seen["calls"]) != cfg["chains"]:
            raise Violation("fixed_sites", "sampler ran %d times for %d chains" % (len(seen["calls"]), cfg["chains"]), step=0)
        base = reads if len(reads) else np.full((1, n_pos, max(n_alleles)), np.nan)
        want = base[:, het]
        for c in seen["calls"]:
            same = c["reads"].shape == want.shape and np.array_equal(np.isnan(c["reads"]), np.isnan(want)) and np.array_equal(np.nan_to_num(c["reads"]), np.nan_to_num(want))
            if not same or c["n_alleles"] != [n_alleles[j] for j in het]:
                raise Violation("fixed_sites",
                                "columns handed to the sampler are not the complement of the sites whose single-SNV homozygosity posterior reaches the threshold %r (expected variable sites %r)" % (thr, het),
                                step=0, detail={"threshold": thr, "expected_variable": het, "handed_shape": list(c["reads"].shape)})
    # 2. fixed columns hold the arg-max allele at every step; other columns equal the inner event log
    for j, a in fixed_allele.items():
        if a is None:
            if len(set(int(v) for v in G[:, :, :, j].ravel())) != 1:
                raise Violation("fixed_sites", "fixed site %d is not constant in the returned trace" % j, step=0, detail={"site": j, "threshold": thr})
            ctx.counters.inc("fixed_allele_ambiguous_below_half")
            continue
        if not np.all(G[:, :, :, j] == a):
            raise Violation("fixed_sites", "fixed site %d does not hold allele %d at every step of the returned trace" % (j, a), step=0,
                            detail={"site": j, "allele": a, "threshold": thr})
    if het:
        for ci, (chain_no, snaps, inv) in enumerate(sim.history):
            for i, (states, llks) in enumerate(snaps):
                cold = states[-1]
                want = ref.hap_key(cold)
                got = ref.hap_key(G[ci, i][:, het])
                if want != got:
                    raise Violation("fixed_sites", "variable columns of the returned trace differ from the states the inner sampler held (chain %d, step %d)" % (ci, i),
                                    step=i, detail={"expected": cold, "got": G[ci, i][:, het]})
                # row association: each full row restricted to het cols appears in cold state (multiset), fixed cols constant -> checked above
    ctx.key("fix", pl, tuple(n_alleles), round(thr, 3), tuple(sorted((j, -1 if a is None else a) for j, a in fixed_allele.items())), hash(G.tobytes()) & 0xFFFFFFFF)


def run_cli(ctx):
    """`mchap assemble --mcmc-fix-homozygous t` end to end: for every (locus, sample) model the program fitted, the columns
    handed to the inner sampler are exactly the SNVs whose independent single-SNV homozygosity posterior (ploidy and
    inbreeding of that sample as given on the command line) stays below t, and the fixed columns of the trace hold the allele."""
    m = bootstrap()
    np = m["np"]
    cfg = ctx.config
    thr = 0.999 if cfg["fix_homozygous"] is None else cfg["fix_homozygous"]
    state = {"ds": None}

    def on_fit(rec):
        reads, counts = rec["reads"], rec["counts"]
        n_pos = reads.shape[1] if reads.ndim == 3 else 0
        if n_pos == 0:
            ctx.counters.inc("cli_locus_without_snv")
            return
        n_alleles = [int(a) for a in rec["model"].n_alleles]
        pl, F = rec["ploidy"], rec["inbreeding"]
        counts_l = None if counts is None else [int(c) for c in counts]
        if len(reads):
            cols = [[reads[r, j, :].tolist() for r in range(len(reads))] for j in range(n_pos)]
        else:
            cols = [[[float("nan")] * max(n_alleles)] for _ in range(n_pos)]
        fixed_allele = {}
        for j in range(n_pos):
            hp, margin = ref.snv_homozygosity(cols[j], counts_l if len(reads) else None, n_alleles[j], pl, F, with_margin=True)
            for a, p in enumerate(hp):
                if p == 1.0 and thr == 1.0 and margin < -45.0:
                    fixed_allele[j] = a
                    continue
                if abs(p - thr) < 1e-9:
                    ctx.counters.inc("threshold_near_skip")
                    return
                if p >= thr:
                    fixed_allele[j] = a if j not in fixed_allele else None
        het = [j for j in range(n_pos) if j not in fixed_allele]
        where = "locus %s, sample %s, --mcmc-fix-homozygous %r, ploidy %d, inbreeding %r" % (rec["locus"], rec["sample"], cfg["fix_homozygous"], pl, F)
        G = rec["trace"]
        if not het:
            if rec["inner"]:
                raise Violation("fixed_sites", "all sites are fixed by the single-SNV posterior but the sampler was still run (%s)" % where, step=0)
        else:
            base = reads if len(reads) else np.full((1, n_pos, max(n_alleles)), np.nan)
            want = base[:, het]
            if not rec["inner"]:
                raise Violation("fixed_sites", "sites %r stay below the threshold but no sampler was run (%s)" % (het, where), step=0)
            for c in rec["inner"]:
                same = c["reads"].shape == want.shape and np.array_equal(np.isnan(c["reads"]), np.isnan(want)) and np.array_equal(np.nan_to_num(c["reads"]), np.nan_to_num(want))
                if not same or c["n_alleles"] != [n_alleles[j] for j in het]:
                    raise Violation("fixed_sites", "columns handed to the sampler are not the complement of the sites whose single-SNV homozygosity posterior reaches the threshold "
                                    "(expected variable sites %r of %d; %s)" % (het, n_pos, where), step=0,
                                    detail={"threshold": thr, "expected_variable": het, "handed_shape": list(c["reads"].shape)})
        for j, a in fixed_allele.items():
            if a is None:
                if len(set(int(v) for v in G[:, :, :, j].ravel())) != 1:
                    raise Violation("fixed_sites", "fixed site %d is not constant in the trace (%s)" % (j, where), step=0)
                continue
            if not np.all(G[:, :, :, j] == a):
                raise Violation("fixed_sites", "fixed site %d does not hold allele %d at every step of the trace (%s)" % (j, a, where), step=0)
        ctx.counters.inc("cli_fixing_checked")
        ctx.counters.inc("cli_all_fixed" if not het else ("cli_some_fixed" if fixed_allele else "cli_none_fixed"))
        ctx.key("cli-fix", pl, tuple(n_alleles), round(thr, 4), tuple(sorted((j, -1 if a is None else a) for j, a in fixed_allele.items())), round(F, 3))

    wl_cli.run_assemble_cli(ctx, on_fit)


def sut_exception_is_violation(e, ctx):
    return True


def shrink_candidates(cfg, violation):
    kind = cfg["kind"]
    out = []

    def mod(**kw):
        c = dict(cfg)
        c.update(kw)
        if c != cfg:
            out.append(c)

    if kind == "cli":
        return wl_cli.shrink_candidates(cfg)
    if kind == "long":
        if cfg["sweeps"] > 1:
            mod(sweeps=1)
        if cfg["ploidy"] > 1:
            mod(ploidy=1)
        n = cfg["n_base"]
        for k in (n // 2, n - 16, n - 1):
            if 1 <= k < n:
                mod(n_base=k)
    elif kind == "sampler":
        return wl_assemble.shrink_candidates(cfg, violation)
    elif kind == "breaks":
        if cfg["policy"] != "first":
            mod(policy="first")
        n, b = cfg["n"], cfg["breaks"]
        if n > 1:
            mod(n=n // 2, breaks=min(b, n // 2 - 1 if n // 2 > 0 else 0))
            mod(n=n - 1, breaks=min(b, n - 2))
        if b > 0:
            mod(breaks=b - 1)
    else:
        if cfg.get("refit"):
            mod(refit=False)
        if cfg["chains"] > 1:
            mod(chains=1)
        if cfg["steps"] > 1:
            mod(steps=1)
        if len(cfg["temperatures"]) > 1:
            mod(temperatures=[1.0])
        if cfg["counts"] != "none":
            mod(counts="none")
        if cfg["inbreeding"] > 0:
            mod(inbreeding=0.0)
        if len(cfg["n_alleles"]) > 1:
            mod(n_alleles=cfg["n_alleles"][:-1], hom_cols=cfg["hom_cols"][:-1])
        if cfg["depth"] > 1:
            mod(depth=cfg["depth"] // 2)
    return [c for c in out if c.get("breaks", 0) >= 0]


def evidence(tier, results, counters):
    return {"simulated_time": "not applicable: no clock or timer enters this property; progress is counted in sampler iterations (simulated_steps) and logged events"}
