"""C01 - every assemble move leaves the tempered posterior invariant."""
from . import wl_assemble
from . import wl_cli
from .engine_k import bootstrap

ID = "C01"
ENGINE = "K"
RUNS = {"quick": 3000, "thorough": 60000}
BATCH_WALL_CAP = {"quick": 1500, "thorough": 6 * 3600}
RUN_WALL_CAP = 1200
RECHECK = {"quick": 12, "thorough": 200}
MIN_BUDGET = 60
MIN_WALL = 240.0

RULE = (
    "one evaluation = one simulated sampler run (instance, perturbation set and every random draw from the tape); "
    "distinct_nontrivial = distinct (instance shape, canonical current genotype, move with its target, inverse temperature) "
    "tuples of EXECUTED elementary moves for which a reverse move existed and the detailed-balance identity was evaluated"
)
FAULT_KEYS = ["adversarial_choice", "row_permute", "cache_flush", "cache_growth", "cache_created", "exchange_accepted", "exchange_rejected"]
PROBE_KEYS = ["sweep_kernels_extracted", "structural_sweep_kernels_extracted", "choice_fidelity_checked",
    "db_mutation_pairs", "db_structural_pairs", "db_exchange_pairs", "dup_state_move", "heated_move",
    "multiallelic_move", "recombination_move", "dosage_move", "zero_option_interval", "order_probe",
    "underflow_skip", "sweeps_checked", "partitions_checked", "cli_models_checked",
]
OPTIONAL_PROBES = {"quick": ("underflow_skip",), "thorough": ()}
COMPONENTS = {
    "real": [
        "mchap.assemble.mcmc.DenovoMCMC.fit/_mcmc/_denovo_assembler", "mchap.assemble.mutation.base_step/compound_step",
        "mchap.assemble.structural.*", "mchap.assemble.tempering.*", "mchap.assemble.likelihood.*", "mchap.assemble.arraymap.*",
        "mchap.assemble.prior.*", "mchap.jitutils.* (all executed as plain Python, NUMBA_DISABLE_JIT=1)",
        "cli flavour (3%): mchap.application.assemble.program end to end - the model it constructs vs the inputs on the command line",
    ],
    "stub": ["numpy.random.{rand,random,randint,choice,shuffle,permutation,seed} (tape)", "random_choice in mutation/structural/mcmc/jitutils (tape)",
             "cache factory (size knobs only)"],
}
ASSUMPTIONS = [
    "numba compiles base_step / interval_step / chain_swap_step faithfully (they are observed interpreted)",
    "log_unique_haplotypes is taken as observed at the seam (float16 artefact of interpreted NumPy), sanity-bounded to 2e-3",
    "reference likelihood / prior written from the documentation in sim/refmodel.py",
]


def prepare(tier):
    bootstrap()


def gen_config(rng, tier, index=0):
    if rng.random() < 0.03:
        return wl_cli.gen_assemble_config(rng, tier)
    return wl_assemble.gen_config(rng, tier, "db")


def execute(ctx):
    if ctx.config.get("flavor") == "cli":
        # consequence clause at the command line: the model `mchap assemble` fits is the posterior of the inputs it was given
        wl_cli.run_assemble_cli(ctx, lambda rec: wl_cli.check_assemble_target(ctx, rec))
        return
    if ctx.config.get("struct_sweep_kernel"):
        wl_assemble.check_structural_sweep_kernel(ctx, ctx.config)
    if ctx.config.get("sweep_kernel"):
        wl_assemble.check_mutation_sweep_kernel(ctx, ctx.config)
    sim = wl_assemble.AssembleSim(ctx, ctx.config, checks=("db",), probe_budget=8)
    sim.run()


def sut_exception_is_violation(e, ctx):
    return True


def shrink_candidates(cfg, violation):
    if cfg.get("flavor") == "cli":
        return wl_cli.shrink_candidates(cfg)
    return wl_assemble.shrink_candidates(cfg, violation)


def evidence(tier, results, counters):
    return {"simulated_time": "not applicable: no clock or timer enters this property; progress is counted in sampler iterations (simulated_steps) and logged events"}
