"""C02 - the call sampler is stationary at the exact posterior."""
from . import wl_call
from . import wl_cli
from .engine_k import bootstrap

ID = "C02"
ENGINE = "K"
RUNS = {"quick": 6000, "thorough": 150000}
BATCH_WALL_CAP = {"quick": 1500, "thorough": 6 * 3600}
RUN_WALL_CAP = 600
RECHECK = {"quick": 12, "thorough": 200}
MIN_BUDGET = 60
MIN_WALL = 240.0

RULE = (
    "one evaluation = one simulated call-sampler run, or (5%) one end-to-end run of `mchap call` + `mchap call-exact` on files written for the run (haplotype set, frequencies, reads, start state, scan order and every draw from the tape); "
    "distinct_nontrivial = distinct (instance shape, canonical current genotype, resampled position's allele [, proposed allele], inbreeding, frequency mode) "
    "tuples of EXECUTED Gibbs / Metropolis-Hastings updates whose vector was compared with the independent posterior"
)
FAULT_KEYS = ["adversarial_choice", "shuffle"]
PROBE_KEYS = ["sweep_kernels_extracted", "gibbs_draws_verified", "sweeps_full", "choice_fidelity_checked", "gibbs_vectors", "mh_pairs", "dup_state_move", "inbred_move", "skewed_freq_move", "exact_premise_checked", "underflow_skip", "zero_frequency_allele_move",
              "cli_targets_compared", "cli_genotypes_compared", "cli_zero_frequency_allele", "cli_reference_masked", "cli_exact_array_compared", "cli_allele_filter"]
OPTIONAL_PROBES = {"quick": ("underflow_skip",), "thorough": ("underflow_skip",)}
COMPONENTS = {
    "real": ["mchap.calling.mcmc.{gibbs_options,mh_options,compound_step,mcmc_sampler,greedy_caller}", "mchap.calling.classes.CallingMCMC.fit",
             "mchap.calling.prior.*", "mchap.calling.likelihood.*", "mchap.calling.exact.{genotype_likelihoods,genotype_posteriors} (premise)",
             "cli flavour: mchap.application.{call,call_exact}.program end to end (argument parsing, pysam on real files written for the run, LocusPrior, read encoding, record formatting), single core",
             "all executed as plain Python (NUMBA_DISABLE_JIT=1)"],
    "stub": ["numpy.random.* (tape)", "random_choice in calling.mcmc (tape)"],
}
ASSUMPTIONS = [
    "numba compiles gibbs_options / mh_options / compound_step faithfully (observed interpreted); narrowed in both tiers by the compiled call-sampler probe (trace likelihoods recomputed, cache on/off trajectories) and in the thorough tier by the compiled kernel comparison",
    "reference posterior written from the documentation in sim/refmodel.py",
    "kernel runs with a frequency of exactly 0 (6%) start from states of positive density and use inbreeding 0 (with inbreeding > 0 a zero-frequency allele means lgamma(0), an interpretive-mode artefact); masked alleles enter through the cli flavour, where the application removes them before sampling",
    "cli flavour: the k-th numerical-core call inside one call_sample_genotypes invocation belongs to the k-th sample of the record",
]


def prepare(tier):
    bootstrap()


def gen_config(rng, tier, index=0):
    if rng.random() < 0.05:
        return wl_cli.gen_call_config(rng, tier)
    cfg = wl_call.gen_config(rng, tier, "db")
    cfg["record_kernels"] = tier == "thorough" and index % 20 == 0
    return cfg


def execute(ctx):
    if ctx.config.get("flavor") == "cli":
        # `mchap call` and `mchap call-exact` end to end on the same files: same exact target, and the one the inputs define
        return wl_cli.run_call_cli(ctx)
    sim = wl_call.CallSim(ctx, ctx.config, checks=("db",))
    sim.check_exact_premise()
    if ctx.config.get("sweep_kernel"):
        sim.check_sweep_kernel()
    sim.run()


def sut_exception_is_violation(e, ctx):
    return True


def shrink_candidates(cfg, violation):
    if cfg.get("flavor") == "cli":
        return wl_cli.shrink_candidates(cfg)
    return wl_call.shrink_candidates(cfg, violation)


def run_compiled_probe(args, timeout=3600):
    """Runs sim/probe_compiled.py with the JIT on in a separate process; returns its JSON document and the command."""
    import json
    import os
    import subprocess
    import sys
    from . import cachedir
    from .core import VERIF_DIR, HarnessError
    env = dict(os.environ, NUMBA_DISABLE_JIT="0", NUMBA_CACHE_DIR=cachedir.numba_cache_dir())
    cmd = [sys.executable, "-W", "ignore", os.path.join(VERIF_DIR, "sim", "probe_compiled.py")] + [str(a) for a in args]
    p = subprocess.run(cmd, capture_output=True, text=True, env=env, timeout=timeout)
    if p.returncode != 0:
        raise HarnessError("compiled probe %s failed: %s" % (args[0], p.stderr[-1500:]))
    return json.loads(p.stdout.strip().splitlines()[-1]), " ".join(cmd)


def callcache_probe(tier, base_seed):
    """Both tiers: the COMPILED call sampler as the programs run it (per-chain likelihood cache on).  Typed containers and
    explicit dtypes only exist compiled (numba.typed.Dict degrades to a plain dict when the JIT is off), so this is the
    part of 'the sampler uses exactly the likelihood' that the interpreted runs cannot see."""
    n = 60 if tier == "quick" else 600
    doc, cmd = run_compiled_probe(["callcache", base_seed % (2 ** 31), n])
    ev = {"cases": doc["cases"], "trace_likelihoods_recomputed": doc["steps_compared"], "cache_on_off_trajectories_compared": doc["trajectory_compared"],
          "max_abs_log_likelihood": doc["max_abs_llk"], "mismatches": len(doc["mismatches"])}
    vs = []
    kinds = sorted(set(m["kind"] for m in doc["mismatches"]))
    for k in kinds:
        ms = [m for m in doc["mismatches"] if m["kind"] == k]
        vs.append({"class": "compiled_" + k, "message": "compiled call sampler (cache on): %s in %d of %d cases, e.g. %r" % (k.replace("_", " "), len(ms), doc["cases"], ms[0]),
                   "detail": ms[:10], "rerun": cmd})
    return ev, vs


def pedcache_probe(tier, base_seed):
    """Both tiers (C09, C18): the COMPILED call-pedigree sampler, whose likelihood cache is created inside mcmc_sampler (no switch,
    no likelihoods returned), against a cache-free twin re-compiled from the same source: same seed and start => identical trace."""
    n = 40 if tier == "quick" else 400
    doc, cmd = run_compiled_probe(["pedcache", base_seed % (2 ** 31), n])
    ev = {"cases": doc["cases"], "cases_with_uninformative_heavy_reads": doc["ballast_cases"], "sampler_steps_compared": doc["steps_compared"],
          "genotypes_compared": doc["sample_steps_compared"], "distinct_joint_states_in_the_traces": doc["distinct_states"], "mismatches": len(doc["mismatches"])}
    vs = []
    if doc["mismatches"]:
        ms = doc["mismatches"]
        vs.append({"class": "compiled_pedigree_trajectory_depends_on_cache",
                   "message": "compiled call-pedigree sampler: the trace differs from that of its cache-free twin (same seed, same start) in %d of %d cases, e.g. %r" % (len(ms), doc["cases"], ms[0]),
                   "detail": ms[:10], "rerun": cmd})
    return ev, vs


def post_batch(tier, base_seed, results, with_callcache=True):
    """Both tiers: compiled call sampler with its cache on (callcache_probe).
    Thorough tier: gibbs_options / mh_options are recomputed COMPILED (JIT on, separate process) on states the
    interpreted runs visited and must agree with the interpreted vectors to 1e-9 (narrows the trusted base
    'numba compiles these functions faithfully')."""
    out = {"evidence": {}, "violations": []}
    if with_callcache:
        ev, vs = callcache_probe(tier, base_seed)
        out["evidence"]["compiled_call_sampler_cache_probe"] = ev
        out["violations"] += vs
    if tier != "thorough":
        out["evidence"]["compiled_kernel_comparison"] = "thorough tier only"
        return out
    import json
    import os
    import tempfile
    from .core import HarnessError
    recs = [e for r in results for e in (r.get("extra") or [])]
    if not recs:
        raise HarnessError("no kernel records were collected")
    fd, path = tempfile.mkstemp(prefix="verif-kernels-", suffix=".json")
    try:
        with os.fdopen(fd, "w") as f:
            json.dump({"records": recs}, f)
        doc, _ = run_compiled_probe(["kernels", path])
    finally:
        os.unlink(path)
    out["evidence"]["compiled_kernel_comparison"] = {"records": len(recs), "compared": doc["compared"], "mismatches": len(doc["mismatches"])}
    if doc["mismatches"]:
        out["violations"].append({"class": "compiled_kernel_differs", "message": "compiled gibbs_options / mh_options disagree with the interpreted vectors: %r" % doc["mismatches"][:2],
                                  "detail": doc["mismatches"][:10]})
    return out


def evidence(tier, results, counters):
    return {"simulated_time": "not applicable: no clock or timer enters this property; progress is counted in sampler iterations (simulated_steps) and logged events"}
