"""Engine P: process simulation.

The real CLI layer runs end to end, compiled (JIT on): argument parsing, pysam
on real files, read encoding, the compiled samplers, record formatting,
run_stdout, _run_stdout_multi_core, _worker, _writer.  Simulated:

  SimMP      replaces `baseclass.mp`     (Manager().Queue(), Pool, apply_async, AsyncResult)
  process    a real thread parked on an event; exactly one holds the baton; the
             tape-driven scheduler hands it over only at IPC points
  SimStdout  replaces `sys.stdout`       (per-process user-space buffer + one shared file; fork copies unflushed bytes)
  SimClock   replaces `headermeta._date` (today() = simulated date)
  SimFiles   wraps `pysam.{AlignmentFile,VariantFile,FastaFile,TabixFile}`: fork semantics of open files (inherited
             handles share one kernel offset; reads by two simulated processes are a race)
"""
import datetime
import os
import sys
import threading
import warnings

from .core import REPO, HarnessError, Violation

_BOOT = {}


def bootstrap():
    if _BOOT:
        return _BOOT
    if os.environ.get("NUMBA_DISABLE_JIT") == "1":
        raise HarnessError("engine P requires the JIT (use ./check)")
    if sys.path[0] != REPO:
        sys.path.insert(0, REPO)
    warnings.filterwarnings("ignore", category=SyntaxWarning)
    import numpy as np
    import pysam
    import mchap
    from mchap.application import assemble, baseclass, call, call_exact, call_pedigree
    from mchap.application import cli
    from mchap.io.vcf import headermeta
    from mchap import jitutils
    from mchap.assemble import mcmc as amcmc
    from mchap.calling import classes as cclasses
    from mchap.pedigree import classes as pclasses

    if not os.path.abspath(mchap.__file__).startswith(os.path.abspath(REPO) + os.sep):
        raise HarnessError("mchap imported from %s, not %s" % (mchap.__file__, REPO))
    _BOOT.update(cli=cli, np=np, pysam=pysam, assemble=assemble, baseclass=baseclass, call=call, call_exact=call_exact,
                 call_pedigree=call_pedigree, headermeta=headermeta, jitutils=jitutils, amcmc=amcmc,
                 cclasses=cclasses, pclasses=pclasses)
    return _BOOT


class Killed(BaseException):
    pass


class SimAbort(BaseException):
    """Carries a simulator-level Violation (deadlock, step cap) through repo code
    that catches Exception."""

    def __init__(self, violation):
        super().__init__(str(violation))
        self.violation = violation


class Task:
    def __init__(self, sched, name, fn, pool=None):
        self.s = sched
        self.name = name
        self.fn = fn
        self.pool = pool
        self.state = "queued" if pool is not None else "ready"
        self.cond = None
        self.timeout = None
        self.ev = threading.Event()
        self.exc = None
        self.result = None
        self.lost = False  # the result never reaches the parent
        self.th = None
        if fn is not None:
            self.th = threading.Thread(target=self._run, daemon=True, name="sim-" + name)
            self.th.start()

    def _run(self):
        self.ev.wait()
        self.ev.clear()
        try:
            if self.s.killed:
                raise Killed()
            self.s.on_process_start(self)
            self.result = self.fn()
        except Killed:
            self.state = "done"
            return
        except SimAbort as e:
            self.state = "done"
            self.s.fatal = e
            self.s.main.ev.set()
            return
        except BaseException as e:  # the task's exception surfaces from AsyncResult.get() - after a pickle round trip
            import pickle
            import traceback as _tb
            try:
                # like multiprocessing's ExceptionWithTraceback: the remote traceback travels as text
                e._sim_remote_traceback = "".join(_tb.format_exception(type(e), e, e.__traceback__))
            except Exception:
                pass
            try:
                data = pickle.dumps(e)
            except Exception as pe:
                from multiprocessing.pool import MaybeEncodingError
                self.exc = MaybeEncodingError(pe, repr(e))
            else:
                try:
                    self.exc = pickle.loads(data)
                except Exception:
                    # real Pool: the parent's result-handler thread dies while rebuilding the exception and the
                    # AsyncResult is never completed - job.get() waits forever
                    self.exc = None
                    self.lost = True
                    self.s.ctx.counters.inc("result_lost_unpicklable_exception")
        else:
            try:
                self.result = ipc_copy(self.result)
            except Exception as pe:
                from multiprocessing.pool import MaybeEncodingError
                self.exc = MaybeEncodingError(pe, repr(self.result))
                self.result = None
        self.s.on_process_exit(self)
        self.state = "done"
        self.s.log("exit" if self.exc is None else "raise", self.name)
        try:
            self.s.switch(self)
        except Killed:
            return
        except BaseException as e:  # deadlock detected while this task was leaving
            self.s.fatal = e
            self.s.main.ev.set()


class Sched:
    """Baton-passing scheduler.  Every choice of who runs next comes from the tape."""

    def __init__(self, ctx, step_cap=200000, policy="uniform"):
        self.ctx = ctx
        self.tape = ctx.tape
        self.policy = policy
        self.tasks = []
        self.killed = False
        self.fatal = None
        self.events = []
        self.step_cap = step_cap
        self.n_switch = 0
        self.main = Task(self, "main", None)
        self.main.state = "running"
        self.main.th = threading.current_thread()
        self.tasks.append(self.main)
        self.proc_start_hook = None
        self.proc_exit_hook = None
        self.pool_created_hook = None
        self.pool_joined_hook = None

    def log(self, what, who, extra=None):
        self.events.append((who, what) if extra is None else (who, what, extra))

    def cur(self):
        th = threading.current_thread()
        for t in self.tasks:
            if t.th is th:
                return t
        raise HarnessError("IPC call from a thread the simulator does not know")

    def on_pool_created(self, pool):
        return self.pool_created_hook(pool) if self.pool_created_hook else None

    def on_pool_joined(self, pool):
        if self.pool_joined_hook:
            self.pool_joined_hook(pool)

    def on_process_start(self, task):
        if self.proc_start_hook:
            self.proc_start_hook(task)

    def on_process_exit(self, task):
        if self.proc_exit_hook:
            self.proc_exit_hook(task)

    def runnable(self):
        out = []
        for t in self.tasks:
            if t.state == "ready":
                out.append(t)
            elif t.state == "blocked" and t.cond():
                out.append(t)
            elif t.state == "blocked" and t.timeout is not None:
                # a wait with a deadline: the other processes may be arbitrarily slow (stalled-node fault),
                # so the deadline can pass at any point at which the wait is still unsatisfied
                out.append(t)
            elif t.state == "queued" and t.pool.free_slot():
                out.append(t)
        return out

    def yield_(self, why, cond=None, extra=None, timeout=None):
        """Returns True normally; False if a wait with a deadline timed out."""
        me = self.cur()
        self.log(why, me.name, extra)
        me.timeout = None
        if cond is not None and not cond():
            me.state = "blocked"
            me.cond = cond
            me.timeout = timeout
        else:
            me.state = "ready"
        self.switch(me)
        if cond is not None and me.timeout is not None:
            me.timeout = None
            if not cond():
                self.ctx.counters.inc("deadline_expired")
                self.log(why + ":timeout", me.name)
                return False
        return True

    def switch(self, me):
        if self.killed and me is not self.main:
            # a process being torn down that reaches another IPC point (e.g. from a `finally:` block) dies there too
            raise Killed()
        self.n_switch += 1
        if self.n_switch > self.step_cap:
            raise SimAbort(Violation("no_progress", "run exceeded %d IPC events without terminating" % self.step_cap, step=self.n_switch))
        cands = self.runnable()
        if not cands:
            states = [(t.name, t.state) for t in self.tasks if t.state != "done"]
            raise SimAbort(Violation("deadlock", "no runnable simulated process: %r" % states, step=self.n_switch,
                                     detail={"states": states}))
        nxt = self.pick(cands, me)
        if nxt.state == "queued":
            nxt.pool.started += 1
        nxt.state = "running"
        if nxt is me:
            return
        nxt.ev.set()
        if me.state != "done":
            me.ev.wait()
            me.ev.clear()
            if self.killed and me is not self.main:
                raise Killed()
            if self.fatal is not None and me is self.main:
                f, self.fatal = self.fatal, None
                raise f

    def pick(self, cands, me):
        """Who runs next.  Every policy is a legal OS schedule; all randomness comes from the tape."""
        if len(cands) == 1:
            return cands[0]
        # waits whose deadline could expire: let the deadline pass only now and then (most runs should progress)
        expiring = [t for t in cands if t.state == "blocked" and t.timeout is not None and not t.cond()]
        if expiring:
            rest = [t for t in cands if t not in expiring]
            if rest and not self.tape.chance(0.15):
                cands = rest
                if len(cands) == 1:
                    return cands[0]
        pol = self.policy
        pool = cands
        if pol == "sticky" and me in cands and self.tape.chance(0.85):
            return me  # run until blocked (coarse-grained interleavings)
        if pol == "starve_writer":
            rest = [t for t in cands if t.name != "p0"]
            if rest and self.tape.chance(0.9):
                pool = rest  # the writer only runs when nothing else can (records pile up in the queue)
        elif pol == "starve_main":
            rest = [t for t in cands if t is not self.main]
            if rest and self.tape.chance(0.9):
                pool = rest  # main is the last to notice anything
        elif pol == "eager_main":
            if self.main in cands and self.tape.chance(0.9):
                return self.main  # main races ahead of its workers
        elif pol == "last_first":
            if self.tape.chance(0.8):
                return pool[-1]  # the most recently created process first
        return pool[self.tape.int(0, len(pool) - 1)]

    def shutdown(self):
        """Reap every simulated-process thread."""
        self.killed = True
        for t in self.tasks:
            if t is not self.main and t.state != "done":
                t.ev.set()
        alive = []
        for t in self.tasks:
            if t is not self.main and t.th is not None:
                t.th.join(5)
                if t.th.is_alive():
                    alive.append(t.name)
        if alive:
            raise HarnessError("simulated processes not reaped: %r" % alive)


_QUEUES = {}


def _lookup_queue(key):
    return _QUEUES[key]


def ipc_copy(x):
    """What crosses a process boundary is pickled on one side and rebuilt on the other."""
    import pickle
    return pickle.loads(pickle.dumps(x))


class SimQueue:
    def __init__(self, s):
        self.s = s
        self.items = []
        self.key = id(self)
        _QUEUES[self.key] = self

    def __reduce__(self):
        # a manager queue travels as a proxy that refers to the same server-side queue
        return (_lookup_queue, (self.key,))

    def put(self, x, block=True, timeout=None):
        self.s.yield_("put:pre")
        self.items.append(ipc_copy(x))
        self.s.yield_("put:post")

    def get(self, block=True, timeout=None):
        import queue as _queue
        if not block:
            self.s.yield_("get:nowait")
            if not self.items:
                raise _queue.Empty()
            return self.items.pop(0)
        ok = self.s.yield_("get", cond=lambda: len(self.items) > 0, timeout=timeout)
        if not ok:
            raise _queue.Empty()
        return self.items.pop(0)

    def get_nowait(self):
        return self.get(block=False)

    def put_nowait(self, x):
        self.put(x)

    def empty(self):
        return not self.items

    def qsize(self):
        return len(self.items)


class SimResult:
    def __init__(self, s, task):
        self.s = s
        self.task = task

    def get(self, timeout=None):
        ok = self.s.yield_("job.get", cond=lambda: self.task.state == "done" and not self.task.lost, timeout=timeout)
        if not ok:
            import multiprocessing
            raise multiprocessing.TimeoutError()
        if self.task.exc is not None:
            raise self.task.exc
        return self.task.result

    def wait(self, timeout=None):
        self.s.yield_("job.wait", cond=lambda: self.task.state == "done" and not self.task.lost, timeout=timeout)

    def ready(self):
        return self.task.state == "done"

    def successful(self):
        return self.task.state == "done" and self.task.exc is None


class SimPool:
    def __init__(self, s, n):
        self.s = s
        self.n = int(n) if n else (os.cpu_count() or 1)
        self.jobs = []
        self.started = 0
        self.closed = False
        self.idle_flushed = False
        s.log("pool", "main", self.n)
        # the worker processes are forked here: they inherit main's unflushed stdout bytes
        self.snapshot = s.on_pool_created(self)

    def free_slot(self):
        done = sum(1 for j in self.jobs if j.state == "done")
        return (self.started - done) < self.n

    def apply_async(self, fn, args=(), kwds=None):
        kwds = kwds or {}
        if self.closed:
            raise ValueError("Pool not running")
        name = "p%d" % len(self.jobs)
        # the task (bound method = a copy of the program object, its arguments) is pickled to the worker
        fn, args, kwds = ipc_copy((fn, tuple(args), dict(kwds)))
        task = Task(self.s, name, lambda: fn(*args, **kwds), pool=self)
        self.s.tasks.append(task)
        self.jobs.append(task)
        self.s.yield_("apply_async", extra=name)
        return SimResult(self.s, task)

    def close(self):
        self.closed = True
        self.s.yield_("pool.close")

    def terminate(self):
        self.closed = True

    def join(self):
        self.s.yield_("pool.join", cond=lambda: all(j.state == "done" for j in self.jobs))
        if not self.idle_flushed:
            self.idle_flushed = True
            self.s.on_pool_joined(self)

    def __enter__(self):
        return self

    def __exit__(self, *a):
        self.terminate()
        return False


class SimMP:
    """Stand-in for the `multiprocessing` module as seen from baseclass."""

    def __init__(self, s):
        self.s = s
        self.pools = []

    def Manager(self):
        return self

    def Queue(self, maxsize=0):
        return SimQueue(self.s)

    def Pool(self, processes=None):
        p = SimPool(self.s, processes)
        self.pools.append(p)
        return p

    def cpu_count(self):
        return os.cpu_count() or 1


class SimStdout:
    """Per-process user-space buffers over one shared file.  fork copies the
    parent's unflushed buffer into the child; a child flushes on normal exit;
    every write() is one atomic append to the process's buffer."""

    def __init__(self, s, capacity=None):
        self.s = s
        self.file = []  # list of (process name, chunk)
        self.buf = {"main": []}
        self.capacity = capacity  # bytes a process may hold before the OS-level write happens

    def _b(self):
        return self.buf.setdefault(self.s.cur().name, [])

    def pool_created(self, pool):
        snap = list(self.buf["main"])
        if snap:
            self.s.ctx.counters.inc("fork_unflushed")
        return snap

    def pool_joined(self, pool):
        # processes that never received a task still flush what they inherited when they exit
        idle = max(0, pool.n - len(pool.jobs))
        for i in range(idle):
            self.file.extend(("idle%d" % i, c) for c in (pool.snapshot or []))

    def fork(self, task):
        self.buf[task.name] = list(task.pool.snapshot or []) if task.pool is not None else []

    def exit(self, task):
        b = self.buf.get(task.name, [])
        self.file.extend((task.name, c) for c in b)
        del b[:]

    def write(self, x):
        self.s.yield_("write")
        b = self._b()
        b.append(x)
        if self.capacity is not None:
            # a full user-space buffer is written out regardless of line boundaries
            me = self.s.cur().name
            while sum(len(c) for c in b) > self.capacity:
                data = "".join(b)
                del b[:]
                self.file.append((me, data[: self.capacity]))
                b.append(data[self.capacity:])
                self.s.ctx.counters.inc("buffer_full_write")
                self.s.yield_("write:full")
        return len(x)

    def flush(self):
        self.s.yield_("flush")
        me = self.s.cur().name
        b = self._b()
        self.file.extend((me, c) for c in b)
        del b[:]

    def value(self):
        """The file as it is when the main process ends (its buffer is flushed at exit)."""
        b = self.buf.get("main", [])
        self.file.extend(("main", c) for c in b)
        del b[:]
        return "".join(c for _, c in self.file)

    def isatty(self):
        return False


class _Handle:
    """Proxy for a pysam file object that reports every read access to SimFiles."""

    def __init__(self, files, real, kind, sched, creator, pools_at_open):
        d = self.__dict__
        d["_files"] = files
        d["_real"] = real
        d["_kind"] = kind
        d["_sched"] = sched
        d["_creator"] = creator
        d["_pools_at_open"] = pools_at_open
        d["_users"] = {}

    def __getattr__(self, name):
        attr = getattr(self._real, name)
        if name in SimFiles.READS:
            SimFiles.touch(self, name)
        return attr

    def __setattr__(self, name, value):
        setattr(self._real, name, value)

    def __enter__(self):
        self._real.__enter__()
        return self

    def __exit__(self, *a):
        return self._real.__exit__(*a)

    def __iter__(self):
        SimFiles.touch(self, "__iter__")
        return iter(self._real)

    def __next__(self):
        SimFiles.touch(self, "__next__")
        return next(self._real)


class SimFiles:
    """fork semantics for open files.  A file opened by the parent before the Pool is created is inherited by every
    worker, and all inheritors share ONE open file description (one kernel offset; htslib reads with read/lseek).
    Reads through it by two different simulated processes race on that offset: what each gets depends on the
    schedule.  Module state (e.g. a cache of handles) is shared by the simulated processes exactly as a fork
    would copy it, so an inherited handle is the same proxy object in every simulated process."""

    KINDS = ("AlignmentFile", "VariantFile", "FastaFile", "Fastafile", "TabixFile")
    READS = frozenset(["fetch", "count", "pileup", "head", "mate", "count_coverage", "find_introns", "get_reference_length"])
    current = None  # the SimFiles of the simulated program run in progress (a handle may outlive the run that opened it)

    @staticmethod
    def touch(h, what):
        if SimFiles.current is not None:
            SimFiles.current.use(h, what)

    def __init__(self, sched, pysam, mp):
        self.s = sched
        self.pysam = pysam
        self.mp = mp
        self.saved = {}

    def install(self):
        for kind in self.KINDS:
            real = getattr(self.pysam, kind, None)
            if real is None:
                continue
            self.saved[kind] = real
            setattr(self.pysam, kind, self._factory(kind, real))
        SimFiles.current = self

    def restore(self):
        for kind, real in self.saved.items():
            setattr(self.pysam, kind, real)
        self.saved = {}
        SimFiles.current = None

    def _factory(self, kind, real):
        def open_(*a, **kw):
            task = self.s.cur()
            return _Handle(self, real(*a, **kw), kind, self.s, task.name if task.pool is not None else "main", len(self.mp.pools))
        return open_

    def use(self, h, what):
        task = self.s.cur()
        if h._sched is not self.s:
            # opened during an earlier program run in this OS process: if the parent opened it, it is as if opened before any
            # fork; if a worker of that run did, no process of this run would have it (sharing it is a simulator artefact)
            creator, opened_at = h._creator, 0
        else:
            creator, opened_at = h._creator, h._pools_at_open
        if creator != "main" or len(self.mp.pools) <= opened_at:
            return  # opened inside a worker (private to it), or no fork since it was opened
        if task.pool is not None and self.mp.pools.index(task.pool) < opened_at:
            return  # a worker forked before the file was opened does not have it
        users = h._users.setdefault(id(self.s), [])
        who = task.name if task.pool is not None else "main"
        if who not in users:
            users.append(who)
        self.s.ctx.counters.inc("inherited_handle_reads")
        if len(users) >= 2:
            raise SimAbort(Violation(
                "shared_file_offset",
                "a %s opened in the parent before the worker pool was forked is read by simulated processes %s and %s: forked processes share "
                "the open file description (one kernel offset), so what each reads depends on the schedule" % (h._kind, users[0], users[1]),
                step=self.s.n_switch, detail={"kind": h._kind, "users": list(users), "access": what}))


class SimDate:
    """Replacement for `headermeta._date`."""

    def __init__(self, clock):
        self.clock = clock

    def today(self):
        self.clock["reads"] = self.clock.get("reads", 0) + 1
        return datetime.date.fromordinal(self.clock["day"])


class ProcessSim:
    """One in-process run of an MCHap program under the simulated OS."""

    def __init__(self, ctx, proc_rng_init=True, step_cap=200000, capacity=None, policy="uniform"):
        self.policy = policy
        self.ctx = ctx
        self.m = bootstrap()
        self.proc_rng_init = proc_rng_init
        self.step_cap = step_cap
        self.capacity = capacity

    def run(self, program_cls, argv, day, before_locus=None):
        """Returns dict(out=str, error=BaseException|None, events=[...], header=[...], records=[...])."""
        m = self.m
        np = m["np"]
        baseclass, headermeta = m["baseclass"], m["headermeta"]
        ctx = self.ctx
        s = Sched(ctx, step_cap=self.step_cap, policy=self.policy)
        out = SimStdout(s, capacity=self.capacity)
        clock = {"day": day}
        s.pool_created_hook = out.pool_created
        s.pool_joined_hook = out.pool_joined

        def start_hook(task):
            out.fork(task)
            if self.proc_rng_init:
                seed = ctx.tape.int(0, 2 ** 31 - 1)
                ctx.counters.inc("proc_rng_init")
            else:
                # numba seeds a new thread's generator from OS entropy: pin it, or a tree that
                # forgets to reseed would make this run unrepeatable instead of merely wrong
                seed = 20261004
            np.random.seed(seed)
            m["jitutils"].seed_numba(seed)

        s.proc_start_hook = start_hook
        s.proc_exit_hook = out.exit
        saved = (baseclass.mp, headermeta._date, sys.stdout)
        orig_call_locus = program_cls.call_locus
        err = None
        prog = None
        files = None
        try:
            baseclass.mp = SimMP(s)
            files = SimFiles(s, m["pysam"], baseclass.mp)
            files.install()
            headermeta._date = SimDate(clock)
            if before_locus is not None:
                def call_locus(self_, locus, sample_bams):
                    before_locus(locus)
                    return orig_call_locus(self_, locus, sample_bams)
                program_cls.call_locus = call_locus
            saved_argv = sys.argv
            sys.argv = list(argv)
            sys.stdout = out
            try:
                # the real entry point: what the `mchap` console script calls
                m["cli"].main()
            except SimAbort as e:
                raise e.violation
            except Violation:
                raise
            except SystemExit as e:
                if e.code not in (0, None):
                    err = e
            except Exception as e:
                err = e
            finally:
                sys.argv = saved_argv
        finally:
            sys.stdout = saved[2]
            if files is not None:
                files.restore()
            baseclass.mp, headermeta._date = saved[0], saved[1]
            program_cls.call_locus = orig_call_locus
            s.shutdown()
        text = out.value()
        lines = text.split("\n")
        trailing = lines.pop() if lines else ""
        header = [l for l in lines if l.startswith("#")]
        records = [l for l in lines if not l.startswith("#")]
        return {"out": text, "error": err, "events": s.events, "header": header, "records": records, "trailing": trailing,
                "chunks": list(out.file), "n_switch": s.n_switch, "clock_reads": clock.get("reads", 0)}
