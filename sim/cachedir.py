"""numba's on-disk cache does not track cross-file dependencies, so engine P
uses a cache directory keyed by the content of every mchap source file."""
import hashlib
import os
import shutil

VERIF_DIR = os.path.dirname(os.path.dirname(os.path.abspath(__file__)))
REPO = os.environ.get("VERIF_REPO", "/repo")


def tree_sha():
    h = hashlib.sha256()
    root = os.path.join(REPO, "mchap")
    for d, dirs, files in sorted(os.walk(root)):
        dirs[:] = sorted(x for x in dirs if x not in ("__pycache__", "tests"))
        for f in sorted(files):
            if f.endswith(".py"):
                p = os.path.join(d, f)
                h.update(os.path.relpath(p, root).encode())
                with open(p, "rb") as fh:
                    h.update(fh.read())
    return h.hexdigest()[:16]


def numba_cache_dir():
    base = os.environ.get("VERIF_CACHE_BASE", os.path.join(VERIF_DIR, ".cache"))
    os.makedirs(base, exist_ok=True)
    name = "numba-" + tree_sha()
    # drop caches of older trees (keep disk use bounded)
    for d in os.listdir(base):
        if d.startswith("numba-") and d != name:
            shutil.rmtree(os.path.join(base, d), ignore_errors=True)
    path = os.path.join(base, name)
    os.makedirs(path, exist_ok=True)
    return path
