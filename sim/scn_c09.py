"""C09 - caches are transparent; the carried likelihood equals the recomputed one."""
from . import refmodel as ref
from . import wl_assemble, wl_call, wl_ped
from .core import Counters, EventLog, RunContext, Tape, Violation
from .engine_k import bootstrap, rel_close

ID = "C09"
ENGINE = "K"
RUNS = {"quick": 4000, "thorough": 80000}
BATCH_WALL_CAP = {"quick": 1500, "thorough": 6 * 3600}
RUN_WALL_CAP = 1200
RECHECK = {"quick": 12, "thorough": 200}
MIN_BUDGET = 60
MIN_WALL = 240.0

RULE = (
    "one evaluation = one simulated sampler run (assemble, call or pedigree) with cache monitors on; assemble runs are executed twice from the same tape under two cache "
    "configurations (off / always / tiny with forced growth and flushes / default) and the two trajectories compared; "
    "distinct_nontrivial = distinct (workload, cache configuration, instance shape, event-log hash) among runs in which at least one cached value was served or stored"
)
FAULT_KEYS = ["cache_flush", "cache_growth", "cache_created", "adversarial_choice", "row_permute", "exchange_accepted", "swap_unequal_reads", "swap_q_more_reads_than_p"]
PROBE_KEYS = ["keystress_lookups", "keystress_power_of_two_pairs", "cached_calls_checked", "cache_hit", "cache_miss", "cache_set", "cache_flush", "cache_growth", "trajectory_pairs", "call_cached_calls",
              "ped_cached_calls", "cache_entries_audited", "swap_q_more_reads_than_p", "exchange_accepted",
              "fixfit_trace_llks_checked", "fixfit_with_fixed_sites", "fixfit_majority_of_reads_on_fixed_sites_only"]
OPTIONAL_PROBES = {"quick": (), "thorough": ()}
COMPONENTS = {
    "real": ["mchap.assemble.arraymap.*", "mchap.assemble.likelihood.*_cached", "mchap.assemble.mcmc._denovo_assembler and all step functions",
             "mchap.calling.likelihood.log_likelihood_alleles_cached + calling.mcmc.*", "mchap.pedigree.likelihood.log_likelihood_alleles_cached + pedigree.mcmc.*",
             "all executed as plain Python (NUMBA_DISABLE_JIT=1)"],
    "stub": ["cache factory: only initial_size / max_size are substituted (the shipped 2**16 limit is never reached by short runs)", "numpy.random.* and random_choice (tape)"],
}
ASSUMPTIONS = [
    "oracle for a cached value is the repo's own UNCACHED log_likelihood evaluated afresh (C09 is about transparency, not about the likelihood definition)",
    "for the pedigree the fresh value is computed on the sample's own positive-count reads as known to the harness, not on the arrays the caller passed",
    "numba compiles arraymap and the cached wrappers faithfully (observed interpreted)",
]

CACHE_ALTS = [
    {"mode": "off", "initial_size": 64, "max_size": 2 ** 16},
    {"mode": "always", "initial_size": 64, "max_size": 2 ** 16},
    {"mode": "default", "initial_size": 64, "max_size": 2 ** 16},
    {"mode": "tiny", "initial_size": 2, "max_size": 4},
    {"mode": "tiny", "initial_size": 4, "max_size": 16},
    {"mode": "tiny", "initial_size": 8, "max_size": 8},
    {"mode": "tiny", "initial_size": 3, "max_size": 48},
]


def prepare(tier):
    bootstrap()


def gen_config(rng, tier, index=0):
    if rng.random() < 0.04:
        return {"workload": "keystress", "ploidy": rng.choice([1, 3, 4, 5, 6, 7, 8]), "n_haps": rng.choice([60, 130, 200]), "data_seed": rng.randrange(2 ** 31),
                "n_samples": rng.choice([2, 3]), "queries": rng.randint(20, 60)}
    if rng.random() < 0.05:
        n_pos = rng.choice([2, 3, 4, 5, 6])
        return {"workload": "fixfit", "ploidy": rng.choice([2, 2, 3, 4]), "n_alleles": [rng.choice([2, 2, 3]) for _ in range(n_pos)],
                "hom_cols": [rng.random() < 0.6 for _ in range(n_pos)], "depth": rng.choice([6, 12, 25, 40]), "threshold": rng.choice([0.9, 0.99, 0.999]),
                "inbreeding": rng.choice([0.0, 0.0, 0.2]), "data_seed": rng.randrange(2 ** 31), "steps": rng.randint(2, 6), "chains": rng.choice([1, 2]),
                "temperatures": rng.choice([[1.0], [0.3, 1.0]]), "cache_threshold": rng.choice([-1, 0, 100]), "window": rng.random() < 0.8}
    w = rng.choice(["assemble", "assemble", "assemble", "call", "pedigree", "pedigree"])
    if w == "assemble":
        cfg = wl_assemble.gen_config(rng, tier, "cache")
        if cfg["cache"]["mode"] in ("off", "default"):
            cfg["cache"] = rng.choice(CACHE_ALTS[1:])
        cfg["alt_cache"] = rng.choice([c for c in CACHE_ALTS if c != cfg["cache"]])
        cfg["steps"] = rng.randint(2, 8)
        return cfg
    if w == "call":
        cfg = wl_call.gen_config(rng, tier, "cache")
        cfg["cache"] = True
        return cfg
    cfg = wl_ped.gen_config(rng, tier, "cache")
    cfg["padding_skew"] = True
    cfg["n_reads"] = [rng.choice([0, 1, 2, 3, 5, 6]) for _ in cfg["parents"]]
    return cfg


def run_keystress(ctx):
    """Adversarial lookup histories for the dict-backed caches (pedigree: keyed per sample; call: per genotype):
    large genotype spaces, several samples with different reads, and lookups whose genotype indices differ by
    powers of two - the histories under which a non-injective (packed / truncated) key serves one genotype's
    likelihood for another.  Every served value is compared with the uncached likelihood."""
    import math
    import random as _random
    cfg = ctx.config
    m = bootstrap()
    np = m["np"]
    rng = _random.Random(cfg["data_seed"])
    pl, nh, ns = cfg["ploidy"], cfg["n_haps"], cfg["n_samples"]
    n_pos = 8
    haps = set()
    while len(haps) < nh:
        haps.add(tuple(rng.randrange(2) for _ in range(n_pos)))
    haps = np.array(sorted(haps), dtype=np.int8)
    reads, counts = [], []
    for s_ in range(ns):
        r = np.zeros((2, n_pos, 2))
        for k in range(2):
            for j in range(n_pos):
                a = rng.randrange(2)
                p = rng.choice([0.7, 0.9, 0.99])
                r[k, j, :] = 1 - p
                r[k, j, a] = p
        reads.append(r)
        counts.append(np.array([rng.choice([1, 2, 3]), rng.choice([1, 2])], dtype=np.int64))
    total = math.comb(nh + pl - 1, pl)
    to_g = m["jitutils"].index_as_genotype_alleles
    fresh = lambda s_, g: float(m["likelihood"].log_likelihood(reads[s_], haps[g], read_counts=counts[s_]))
    ped_cached = m["plikelihood"].log_likelihood_alleles_cached
    call_cached = m["clikelihood"].log_likelihood_alleles_cached
    ped_cache = {(-1, -1): float("nan")}
    call_caches = [{-1: float("nan")} for _ in range(ns)]
    queries = []
    for _ in range(cfg["queries"]):
        i = ctx.tape.int(0, total - 1)
        s_ = ctx.tape.int(0, ns - 1)
        queries.append((s_, i))
        if ctx.tape.chance(0.3):
            # genotypes that differ only in one high-numbered allele
            g0 = [int(v) for v in to_g(int(i), pl)]
            g0[-1] = nh - 1 - ctx.tape.int(0, min(nh - 1, 40))
            g0 = sorted(g0)
            queries.append((s_, int(m["jitutils"].genotype_alleles_as_index(np.array(g0, dtype=np.int64)))))
            g0[-1] = nh - 1 - ctx.tape.int(0, min(nh - 1, 40))
            g0 = sorted(g0)
            queries.append((s_, int(m["jitutils"].genotype_alleles_as_index(np.array(g0, dtype=np.int64)))))
            ctx.counters.inc("keystress_high_allele_pairs")
        w = [8, 16, 24, 31, 32, 33, 40][ctx.tape.int(0, 6)]
        j = i + (1 << w) if i + (1 << w) < total else i - (1 << w)
        if 0 <= j < total:
            queries.append(((s_ + 1) % ns if ctx.tape.chance(0.7) else s_, j))
            ctx.counters.inc("keystress_power_of_two_pairs")
    for rnd in range(2):
        for s_, i in (queries if rnd == 0 else reversed(queries)):
            g = np.array(to_g(int(i), pl), dtype=np.int64)
            want = fresh(s_, g)
            got = float(ped_cached(reads[s_], counts[s_], haps, s_, g, ped_cache))
            ctx.counters.inc("keystress_lookups")
            if not rel_close(got, want):
                raise Violation("cached_value_wrong", "pedigree llk cache served %r for (sample %d, genotype index %d), recomputed %r" % (got, s_, i, want),
                                step=ctx.step, detail={"sample": s_, "genotype_index": int(i), "ploidy": pl, "n_haps": nh})
            got = float(call_cached(reads[s_], counts[s_], haps, g, call_caches[s_]))
            if not rel_close(got, want):
                raise Violation("cached_value_wrong", "call llk cache served %r for genotype index %d, recomputed %r" % (got, i, want),
                                step=ctx.step, detail={"genotype_index": int(i), "ploidy": pl, "n_haps": nh})
    ctx.log.add("keystress", pl, nh, len(queries))
    ctx.key("keystress", pl, nh, ns, ctx.log.sha())
    ctx.counters.inc("call_cached_calls", len(queries))
    ctx.counters.inc("ped_cached_calls", len(queries))


def run_fixfit(ctx):
    """DenovoMCMC.fit end to end with homozygous-site fixing and short, weighted reads.  All haplotypes agree at a fixed site, so
    the read likelihood factorises: every likelihood recorded in the trace must equal the likelihood of that step's FULL genotype
    on the sample's own reads and counts (repo's uncached function) minus the constant contributed by the fixed sites - whatever
    the preprocessing between fit() and the inner sampler does to the read arrays."""
    import math
    import random as _random
    m = bootstrap()
    np = m["np"]
    cfg = ctx.config
    rng = _random.Random(cfg["data_seed"])
    n_alleles = cfg["n_alleles"]
    n_pos = len(n_alleles)
    amax = max(n_alleles)
    pl = cfg["ploidy"]
    truth = [[0] * n_pos for _ in range(pl)]
    for j in range(n_pos):
        a = rng.randrange(n_alleles[j])
        for h in range(pl):
            truth[h][j] = a if cfg["hom_cols"][j] else rng.randrange(n_alleles[j])
    depth = cfg["depth"]
    reads = np.full((depth, n_pos, amax), np.nan)
    for r in range(depth):
        hap = rng.choice(truth)
        lo, hi = 0, n_pos
        if cfg["window"]:
            lo = rng.randrange(n_pos)
            hi = rng.randint(lo + 1, min(n_pos, lo + rng.choice([1, 2, 3])))
        for j in range(lo, hi):
            p = rng.choice([0.99, 0.999])
            a = hap[j] if rng.random() < 0.98 else rng.randrange(n_alleles[j])
            reads[r, j, :] = 0.0
            reads[r, j, : n_alleles[j]] = (1 - p) / max(1, n_alleles[j] - 1)
            reads[r, j, a] = p
    counts = np.array([rng.choice([1, 2, 3, 5, 9]) for _ in range(depth)], dtype=np.int64)
    thr, F = cfg["threshold"], cfg["inbreeding"]
    cols = [[reads[r, j, :].tolist() for r in range(depth)] for j in range(n_pos)]
    fixed = {}
    for j in range(n_pos):
        hp = ref.snv_homozygosity(cols[j], [int(c) for c in counts], n_alleles[j], pl, F)
        for a, pr in enumerate(hp):
            if abs(pr - thr) < 1e-9:
                ctx.counters.inc("fixfit_threshold_near_skip")
                return
            if pr >= thr:
                fixed[j] = a
    handed = []
    amcmc = m["amcmc"]
    real = amcmc._denovo_assembler

    def w_denovo(**kw):
        handed.append(int(np.asarray(kw["reads"]).shape[1]))
        return real(**kw)

    from .engine_k import Seams
    with Seams() as seams:
        seams.set(amcmc, "_denovo_assembler", w_denovo)
        model = amcmc.DenovoMCMC(ploidy=pl, n_alleles=list(n_alleles), inbreeding=F, steps=cfg["steps"], chains=cfg["chains"], fix_homozygous=thr,
                                 temperatures=tuple(cfg["temperatures"]), random_seed=int(cfg["data_seed"] % 10 ** 6) + 1, llk_cache_threshold=cfg["cache_threshold"])
        trace = model.fit(reads, read_counts=counts)
    if not handed or any(h != n_pos - len(fixed) for h in handed):
        # which sites are fixed is C15's question; without agreement on it the constant below is undefined
        ctx.counters.inc("fixfit_fixed_set_differs_skip")
        return
    G = np.asarray(trace.genotypes)
    L = np.asarray(trace.llks)
    const = 0.0
    for r in range(depth):
        for j, a in fixed.items():
            v = reads[r, j, a]
            if v == v:
                const += int(counts[r]) * math.log(v)
    fresh = m["likelihood"].log_likelihood
    for c in range(G.shape[0]):
        for i in range(G.shape[1]):
            full = float(fresh(reads, G[c, i], read_counts=counts))
            want = full - const
            got = float(L[c, i])
            ctx.counters.inc("fixfit_trace_llks_checked")
            if not (abs(got - want) <= 1e-9 * max(1.0, abs(want))):
                raise Violation("trace_llk_not_own_reads",
                                "likelihood recorded in the trace of DenovoMCMC.fit is %.9g; the step's genotype on the sample's own reads and counts has %.9g "
                                "(= full likelihood %.9g minus the fixed sites' constant %.9g)" % (got, want, full, const), step=i,
                                detail={"chain": c, "fixed_sites": sorted(fixed), "n_reads": depth, "threshold": thr})
    if fixed:
        ctx.counters.inc("fixfit_with_fixed_sites")
    informative = sum(1 for r in range(depth) if any(not math.isnan(reads[r, j, 0]) for j in range(n_pos) if j not in fixed))
    if fixed and informative <= depth // 2:
        ctx.counters.inc("fixfit_majority_of_reads_on_fixed_sites_only")
    ctx.key("fixfit", pl, tuple(n_alleles), tuple(sorted(fixed)), cfg["cache_threshold"], hash(G.tobytes()) & 0xFFFFFF)


def execute(ctx):
    cfg = ctx.config
    w = cfg["workload"]
    if w == "keystress":
        return run_keystress(ctx)
    if w == "fixfit":
        return run_fixfit(ctx)
    if w == "assemble":
        sim = wl_assemble.AssembleSim(ctx, cfg, checks=("cache",))
        sim.run()
        used = ctx.tape.used()
        alt = dict(cfg, cache=cfg["alt_cache"])
        ctx2 = RunContext(alt, Tape(values=used), EventLog(), Counters(), set())
        sim2 = wl_assemble.AssembleSim(ctx2, alt, checks=("cache",))
        sim2.run()
        for k, v in ctx2.counters.items():
            ctx.counters.inc(k, v)
        compare_traj(ctx, sim.traj, sim2.traj, cfg["cache"], cfg["alt_cache"])
        ctx.counters.inc("trajectory_pairs")
        if ctx.counters.get("cache_set", 0) or ctx.counters.get("cache_hit", 0):
            ctx.key("assemble", cfg["cache"]["mode"], cfg["cache"]["initial_size"], cfg["cache"]["max_size"], cfg["alt_cache"]["mode"],
                    cfg["ploidy"], tuple(cfg["n_alleles"]), ctx.log.sha())
    elif w == "call":
        sim = wl_call.CallSim(ctx, cfg, checks=("cache",))
        sim.run()
        if ctx.counters.get("call_cached_calls", 0):
            ctx.key("call", cfg["ploidy"], cfg["n_haps"], ctx.log.sha())
    else:
        sim = wl_ped.PedSim(ctx, cfg, checks=("cache",))
        sim.run()
        if ctx.counters.get("ped_cached_calls", 0):
            ctx.key("ped", cfg["topology"], tuple(cfg["n_reads"]), ctx.log.sha())


def compare_traj(ctx, a, b, ca, cb):
    if len(a) != len(b):
        raise Violation("trajectory_depends_on_cache", "trajectory lengths differ between cache configurations %r and %r: %d vs %d" % (ca, cb, len(a), len(b)), step=ctx.step)
    for i, (x, y) in enumerate(zip(a, b)):
        if x[:3] != y[:3] or not rel_close(x[3], y[3]):
            raise Violation("trajectory_depends_on_cache",
                            "same tape, cache %r vs %r: trajectories diverge at sub-step %d (%s: llk %r vs %r, same state=%r)" % (ca, cb, i, x[0], x[3], y[3], x[2] == y[2]),
                            step=ctx.step, detail={"substep": i, "kind": x[0]})


def sut_exception_is_violation(e, ctx):
    return True


def shrink_candidates(cfg, violation):
    w = cfg["workload"]
    if w == "keystress":
        return [dict(cfg, queries=max(1, cfg["queries"] // 2))] if cfg["queries"] > 1 else []
    if w == "fixfit":
        out = []
        for k, v in (("chains", 1), ("steps", max(1, cfg["steps"] - 1)), ("depth", max(2, cfg["depth"] // 2)), ("temperatures", [1.0]), ("inbreeding", 0.0), ("cache_threshold", -1)):
            if cfg[k] != v:
                out.append(dict(cfg, **{k: v}))
        return out
    if w == "assemble":
        out = []
        for c in wl_assemble.shrink_candidates(cfg, violation):
            if c["cache"]["mode"] == "off" and cfg["cache"]["mode"] != "off":
                continue  # keep the cache under test
            out.append(c)
        return out
    if w == "call":
        return wl_call.shrink_candidates(cfg, violation)
    return wl_ped.shrink_candidates(cfg, violation)


def post_batch(tier, base_seed, results):
    """The compiled (JIT) code path.  Both tiers: the call sampler with its per-chain cache on returns exactly the uncached
    likelihood at every step and the same trajectory as with the cache off; DenovoMCMC.fit with the same seed and
    llk_cache_threshold in {-1, 0, 100, 10**6} gives identical traces (quick: 12 small cases; thorough: 96 cases including runs long
    enough to overflow the real 2**16-node limit)."""
    from . import scn_c02
    out = {"evidence": {}, "violations": []}
    ev, vs = scn_c02.callcache_probe(tier, base_seed)
    out["evidence"]["compiled_call_sampler_cache_probe"] = ev
    out["violations"] += vs
    ev, vs = scn_c02.pedcache_probe(tier, base_seed)
    out["evidence"]["compiled_pedigree_sampler_cache_probe"] = ev
    out["violations"] += vs
    args = ["cache", base_seed % (2 ** 31), 12, "small"] if tier != "thorough" else ["cache", base_seed % (2 ** 31), 96]
    doc, cmd = scn_c02.run_compiled_probe(args, timeout=3 * 3600)
    out["evidence"]["compiled_cache_probe"] = {"cases": doc["cases"], "cases_overflowing_the_real_cache_limit": doc["big_cases"],
                                               "thresholds": [-1, 0, 100, 10 ** 6], "trace_likelihoods_recomputed": doc.get("llks_recomputed", 0), "mismatches": len(doc["mismatches"])}
    if doc["mismatches"]:
        out["violations"].append({"class": "compiled_trajectory_depends_on_cache",
                                  "message": "compiled DenovoMCMC.fit: traces differ between llk_cache_threshold values with the same seed, or a recorded likelihood is not the uncached likelihood of its genotype: %r" % doc["mismatches"][:3],
                                  "detail": doc["mismatches"][:10], "rerun": cmd})
    return out


def evidence(tier, results, counters):
    return {"simulated_time": "not applicable: no clock or timer enters this property; progress is counted in sampler iterations (simulated_steps) and logged events"}
