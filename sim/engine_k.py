"""Engine K: sampler simulation.

MCHap's samplers are executed as plain Python (NUMBA_DISABLE_JIT=1), so every
collaborator of every @njit function is resolved through module globals at call
time.  That makes every seam reachable by assigning a module attribute; no
edit to /repo is needed.  The simulator owns

  * every categorical draw (`random_choice` in each module),
  * every uniform / integer draw, shuffle and permutation (`np.random.*`),
  * the cache factory,

and observes every step boundary.  All draws come from the choice tape.
"""
import inspect
import os
import sys
import warnings

from .core import REPO, HarnessError, Violation

_BOOT = {}
_REAL_RANDOMSTATE = None


def bootstrap():
    """Import MCHap interpreted from VERIF_REPO.  Idempotent."""
    if _BOOT:
        return _BOOT
    if os.environ.get("NUMBA_DISABLE_JIT") != "1":
        raise HarnessError("engine K requires NUMBA_DISABLE_JIT=1 (use ./check)")
    if sys.path[0] != REPO:
        sys.path.insert(0, REPO)
    warnings.filterwarnings("ignore", category=SyntaxWarning)
    import numpy as np

    global _REAL_RANDOMSTATE
    _REAL_RANDOMSTATE = np.random.RandomState
    np.seterr(all="ignore")
    import mchap
    import mchap.jitutils as jitutils
    from mchap.assemble import arraymap, likelihood, mutation, structural, tempering
    from mchap.assemble import mcmc as amcmc
    from mchap.assemble import classes as aclasses
    from mchap.assemble import prior as aprior
    from mchap.calling import mcmc as cmcmc
    from mchap.calling import classes as cclasses
    from mchap.calling import likelihood as clikelihood
    from mchap.calling import exact as cexact
    from mchap.pedigree import mcmc as pmcmc
    from mchap.pedigree import classes as pclasses
    from mchap.pedigree import likelihood as plikelihood
    from mchap.pedigree import prior as pprior

    warnings.filterwarnings("ignore", category=RuntimeWarning)
    if not os.path.abspath(mchap.__file__).startswith(os.path.abspath(REPO) + os.sep):
        raise HarnessError("mchap imported from %s, not %s" % (mchap.__file__, REPO))
    if not inspect.isfunction(mutation.base_step):
        raise HarnessError("numba JIT is active; engine K needs interpreted code")
    _BOOT.update(
        np=np,
        jitutils=jitutils,
        arraymap=arraymap,
        likelihood=likelihood,
        mutation=mutation,
        structural=structural,
        tempering=tempering,
        amcmc=amcmc,
        aclasses=aclasses,
        aprior=aprior,
        cmcmc=cmcmc,
        cclasses=cclasses,
        clikelihood=clikelihood,
        cexact=cexact,
        pmcmc=pmcmc,
        pclasses=pclasses,
        plikelihood=plikelihood,
        pprior=pprior,
    )
    return _BOOT


class Seams:
    """Install / restore module-attribute substitutions."""

    def __init__(self):
        self._saved = []

    def set(self, obj, name, new):
        if not hasattr(obj, name):
            raise HarnessError("seam %s.%s does not exist" % (getattr(obj, "__name__", obj), name))
        self._saved.append((obj, name, getattr(obj, name)))
        setattr(obj, name, new)

    def restore(self):
        while self._saved:
            obj, name, old = self._saved.pop()
            setattr(obj, name, old)

    def __enter__(self):
        return self

    def __exit__(self, *exc):
        self.restore()
        return False


_SIG_CACHE = {}


def bind(fn, args, kwargs):
    """Bind a call to the real function's signature -> ordered dict of all
    parameters (defaults applied)."""
    sig = _SIG_CACHE.get(fn)
    if sig is None:
        sig = _SIG_CACHE[fn] = inspect.signature(fn)
    ba = sig.bind(*args, **kwargs)
    ba.apply_defaults()
    return ba.arguments


class SimRandom:
    """The random seam.  Every draw comes from the tape; every probability
    vector handed to random_choice is validated and recorded."""

    def __init__(self, ctx, adv_rate=0.0):
        self.ctx = ctx
        self.tape = ctx.tape
        self.adv_rate = adv_rate
        self.np = bootstrap()["np"]
        self.last_vec = None
        self.last_choice = None
        self.last_unit = None
        self.probe = None  # when set: callable(vector)->index, nothing is logged/drawn
        self.script = None  # when set: list of values served to rand/randint (probes; no tape)
        self.real_choice = None
        self.int_script = None  # when set: Fisher-Yates indices served to shuffle/permutation (kernel extraction)
        self.on_choice = None  # optional callback(vector, index) after every non-probe categorical draw
        self.last_ints = []
        self.seeds = []

    # -- categorical ------------------------------------------------------
    def random_choice(self, probabilities):
        np = self.np
        p = np.array(probabilities, dtype=np.float64)
        if self.probe is not None:
            return self.probe(p)
        self.validate_vector(p)
        self.last_vec = p
        pos = [i for i in range(len(p)) if p[i] > 0.0]
        if not pos:
            raise Violation("bad_probability_vector", "no positive entry", self.ctx.step,
                            {"vector": p})
        if self.adv_rate > 0 and self.tape.chance(self.adv_rate):
            idx = pos[self.tape.int(0, len(pos) - 1)]
            self.ctx.counters.inc("adversarial_choice")
        else:
            u = self.tape.unit()
            idx = int(np.searchsorted(np.cumsum(p), u, side="right"))
            if idx < len(p) and self.real_choice is not None:
                # keep MCHap's own random_choice in the loop: fed the same uniform it must
                # return the inverse-CDF index (the draw is distributed as the vector says)
                self.script = [u]
                try:
                    got = int(self.real_choice(np.array(probabilities, dtype=np.float64)))
                finally:
                    self.script = None
                self.ctx.counters.inc("choice_fidelity_checked")
                if got != idx:
                    raise Violation("random_choice_not_faithful",
                                    "jitutils.random_choice returned index %d for uniform %r and vector %r; inverse CDF gives %d" % (got, u, p.tolist(), idx),
                                    self.ctx.step, {"vector": p, "uniform": u})
            if idx >= len(p):
                idx = pos[-1]
            if p[idx] <= 0.0:
                # never return a zero-probability option
                later = [i for i in pos if i > idx]
                idx = later[0] if later else pos[-1]
        self.last_choice = idx
        if self.on_choice is not None:
            self.on_choice(p, idx)
        return idx

    def validate_vector(self, p):
        np = self.np
        if p.ndim != 1 or len(p) == 0:
            raise Violation("bad_probability_vector", "shape %r" % (p.shape,), self.ctx.step)
        if not np.all(np.isfinite(p)):
            raise Violation("bad_probability_vector", "non-finite entries", self.ctx.step,
                            {"vector": p})
        if p.min() < -1e-9:
            raise Violation("bad_probability_vector", "negative entry %g" % p.min(),
                            self.ctx.step, {"vector": p})
        if abs(p.sum() - 1.0) > 1e-9:
            raise Violation("bad_probability_vector", "sums to %r" % p.sum(), self.ctx.step,
                            {"vector": p})

    # -- numpy.random replacements ---------------------------------------
    def rand(self, *shape):
        if shape:
            return self.fallback("rand")(*shape)
        if self.script is not None:
            return self.script.pop(0)
        u = self.tape.unit()
        self.last_unit = u
        return u

    def random(self, size=None):
        if size is not None:
            return self.fallback("random_sample")(size)
        if self.script is not None:
            return self.script.pop(0)
        u = self.tape.unit()
        self.last_unit = u
        return u

    def randint(self, low, high=None, size=None):
        if size is not None:
            return self.fallback("randint")(low, high, size)
        if high is None:
            low, high = 0, low
        if self.script is not None:
            return self.script.pop(0)
        v = self.tape.int(int(low), int(high) - 1)
        self.last_ints.append(v)
        return v

    def fallback(self, name):
        """Any other numpy.random function: evaluated by a private RandomState seeded from the tape, so the
        draw is still decided by the tape and replays exactly (the distribution is numpy's own)."""
        def f(*args, **kwargs):
            self.ctx.counters.inc("fallback_random_" + name)
            rs = _REAL_RANDOMSTATE(self.tape.int(0, 2 ** 31 - 1))
            return getattr(rs, name)(*args, **kwargs)
        return f

    def choice(self, a, size=None, replace=True, p=None):
        if size is not None or p is not None:
            return self.fallback("choice")(a, size=size, replace=replace, p=p)
        if isinstance(a, (int, self.np.integer)):
            return self.tape.int(0, int(a) - 1)
        return a[self.tape.int(0, len(a) - 1)]

    def shuffle(self, x):
        n = len(x)
        if self.int_script is None:
            self.ctx.counters.inc("shuffle")
        for i in range(n - 1, 0, -1):
            j = self.tape.int(0, i) if self.int_script is None else self.int_script.pop(0)
            if j != i:
                if getattr(x, "ndim", 1) > 1:
                    x[[i, j]] = x[[j, i]]
                else:
                    x[i], x[j] = x[j], x[i]

    def permutation(self, x):
        np = self.np
        if isinstance(x, (int, np.integer)):
            x = np.arange(x)
        out = np.array(x).copy()
        self.shuffle(out)
        return out

    def seed(self, s=None):
        self.seeds.append(s)
        self.ctx.log.add("seed", s)

    def install(self, seams, choice_modules):
        np = self.np
        for name in ("rand", "random", "randint", "choice", "shuffle", "permutation", "seed"):
            seams.set(np.random, name, getattr(self, name))
        seams.set(np.random, "random_sample", self.random)
        for name in ("multinomial", "dirichlet", "beta", "binomial", "uniform", "normal", "poisson", "geometric", "exponential", "gamma"):
            seams.set(np.random, name, self.fallback(name))
        jit = bootstrap()["jitutils"]
        if self.real_choice is None and jit.random_choice is not self.random_choice:
            self.real_choice = jit.random_choice
        for mod in choice_modules:
            seams.set(mod, "random_choice", self.random_choice)


def rel_close(a, b, tol=1e-9):
    if a == b:
        return True
    if a != a or b != b:
        return (a != a) and (b != b)
    if a in (float("inf"), float("-inf")) or b in (float("inf"), float("-inf")):
        return a == b
    return abs(a - b) <= tol * max(1.0, abs(a), abs(b))
