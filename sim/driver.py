"""Batch driver: runs many seeded simulated runs of one property's scenario in
parallel, minimises and replays violations, writes the evidence file and sets
the exit status (0 held / 1 violation / 2 harness error)."""
import argparse
import array
import concurrent.futures as cf
import faulthandler
import importlib
import json
import multiprocessing
import os
import subprocess
import sys
import time
import traceback

from . import core
from .core import (
    EXIT_HARNESS,
    EXIT_OK,
    EXIT_VIOLATION,
    H,
    HarnessError,
    VERIF_DIR,
    execute_run,
    load_known_findings,
    match_known,
    minimise,
    run_seed_for,
    write_replay,
)

import random

SCENARIOS = {
    "C01": "sim.scn_c01",
    "C02": "sim.scn_c02",
    "C08": "sim.scn_c08",
    "C09": "sim.scn_c09",
    "C10": "sim.scn_c10",
    "C14": "sim.scn_c14",
    "C15": "sim.scn_c15",
    "C18": "sim.scn_c18",
}

ENGINE_ENV = {
    "K": {"NUMBA_DISABLE_JIT": "1", "PYTHONHASHSEED": "0"},
    "P": {"NUMBA_DISABLE_JIT": "0", "PYTHONHASHSEED": "0"},
}

_SCN = None


def load_scenario(prop):
    return importlib.import_module(SCENARIOS[prop])


def _worker(args):
    prop, tier, base_seed, index = args
    scn = _SCN
    faulthandler.dump_traceback_later(scn.RUN_WALL_CAP, exit=True)
    try:
        rs = run_seed_for(base_seed, prop, tier, index)
        cfg = scn.gen_config(random.Random(H(rs, "config")), tier, index)
        res = core.run_for(scn)(scn, cfg, run_seed=rs, keep_events=(8 if index < 3 else 0))
        res["index"] = index
        res["run_seed"] = rs
        if res["violation"] is None:
            res["config"] = cfg if index < 3 else None
        return res
    except HarnessError as e:
        return {"index": index, "harness_error": str(e)}
    except Exception:
        return {"index": index, "harness_error": traceback.format_exc()}
    finally:
        faulthandler.cancel_dump_traceback_later()


def determinism_recheck(scn, prop, tier, base_seed, indices, shas):
    """Re-execute a sample of runs in this process; event-log hashes must be
    identical (the full self-test lives in selftest.py)."""
    mism = 0
    for i in indices:
        rs = run_seed_for(base_seed, prop, tier, i)
        cfg = scn.gen_config(random.Random(H(rs, "config")), tier, i)
        res = core.run_for(scn)(scn, cfg, run_seed=rs)
        if res["sha"] != shas[i]:
            mism += 1
    return mism


def main(argv=None):
    ap = argparse.ArgumentParser()
    ap.add_argument("prop")
    ap.add_argument("--tier", default=os.environ.get("VERIF_TIER", "quick"))
    ap.add_argument("--replay")
    ap.add_argument("--runs", type=int)
    ap.add_argument("--workers", type=int, default=int(os.environ.get("VERIF_WORKERS", "0")) or min(16, os.cpu_count() or 1))
    ap.add_argument("--no-evidence", action="store_true")
    ap.add_argument("--print-shas", action="store_true")
    ap.add_argument("--index", type=int, help="run a single run index verbosely")
    args = ap.parse_args(argv)
    prop = args.prop
    tier = args.tier if args.tier in ("quick", "thorough") else "quick"
    base_seed = int(os.environ.get("VERIF_SEED", core.DEFAULT_SEED))
    t0 = time.time()
    global _SCN
    try:
        scn = _SCN = load_scenario(prop)
        scn.prepare(tier)
    except Exception:
        print("HARNESS-ERROR property=%s while preparing:\n%s" % (prop, traceback.format_exc()))
        return EXIT_HARNESS

    if args.replay:
        return replay_file(scn, prop, args.replay)

    n_runs = args.runs or max(1, int(scn.RUNS[tier] * float(os.environ.get("VERIF_RUNS_SCALE", "1"))))
    if args.index is not None:
        r = _worker((prop, tier, base_seed, args.index))
        print(json.dumps(core._jsonable({k: v for k, v in r.items() if k not in ("keys", "tape")}), indent=1)[:6000])
        return EXIT_OK

    results = []
    harness_errors = []
    wall_cap = scn.BATCH_WALL_CAP[tier]
    ctx = multiprocessing.get_context("fork")
    timed_out = False
    with cf.ProcessPoolExecutor(max_workers=args.workers, mp_context=ctx) as ex:
        futs = [ex.submit(_worker, (prop, tier, base_seed, i)) for i in range(n_runs)]
        try:
            for f in cf.as_completed(futs, timeout=wall_cap):
                r = f.result()
                if "harness_error" in r:
                    harness_errors.append(r)
                else:
                    results.append(r)
        except cf.TimeoutError:
            timed_out = True
            for f in futs:
                f.cancel()
            ex.shutdown(wait=False, cancel_futures=True)
        except cf.process.BrokenProcessPool as e:
            harness_errors.append({"index": -1, "harness_error": "worker died: %r" % e})
    if timed_out:
        print("HARNESS-ERROR property=%s batch exceeded wall cap %ss (%d/%d runs finished)" % (prop, wall_cap, len(results), n_runs))
        return EXIT_HARNESS
    if harness_errors:
        for h in harness_errors[:3]:
            print("HARNESS-ERROR property=%s run=%s\n%s" % (prop, h["index"], h["harness_error"][-3000:]))
        return EXIT_HARNESS

    results.sort(key=lambda r: r["index"])
    if args.print_shas:
        for r in results:
            print("SHA %d %s" % (r["index"], r["sha"]))

    # aggregate
    counters = {}
    keys = array.array("Q")
    steps = 0
    events = 0
    for r in results:
        for k, v in r["counters"].items():
            counters[k] = counters.get(k, 0) + v
        keys.extend(r["keys"])
        steps += r["steps"] or 0
        events += r["events"]
    distinct = len(set(keys))

    # violations: classify against known findings, minimise, replay
    findings = load_known_findings()
    viols = [r for r in results if r["violation"] is not None]
    reported = []
    known_lines = {}
    seen_classes = {}
    for r in results:
        for kid in r.get("known", {}):
            for f in findings:
                if f["id"] == kid:
                    known_lines.setdefault(kid, f)
    for r in viols:
        kf = match_known(prop, r["violation"], findings)
        if kf is not None:
            known_lines.setdefault(kf["id"], kf)
            continue
        sig = (r["violation"]["class"],)
        seen_classes.setdefault(sig, []).append(r)
    exit_code = EXIT_OK
    for sig, rs in seen_classes.items():
        r = rs[0]
        try:
            small = minimise(scn, r, budget=scn.MIN_BUDGET, wall=scn.MIN_WALL)
        except Exception:
            small = r
        # minimisation may land on a known finding; keep the original then
        if match_known(prop, small["violation"], findings) is not None:
            small = r
        path = os.path.join(VERIF_DIR, "replays", "%s-%s-%d.json" % (prop, sig[0], r["run_seed"]))
        write_replay(prop, SCENARIOS[prop], r["run_seed"], small, path)
        ok = verify_replay_fresh(prop, path)
        print("VIOLATION property=%s replay=%s" % (prop, path))
        print("  class=%s runs_affected=%d seed=%d replay_verified=%s" % (sig[0], len(rs), r["run_seed"], ok))
        print("  %s" % small["violation"]["message"][:500])
        reported.append({"class": sig[0], "replay": path, "runs": len(rs), "replay_verified": ok,
                         "message": small["violation"]["message"][:500]})
        exit_code = EXIT_VIOLATION
    # scenario-level extras (thorough tier: compiled probes, real-process fidelity, hash-seed re-execution)
    post = {}
    if hasattr(scn, "post_batch") and not args.runs:
        try:
            post = scn.post_batch(tier, base_seed, results) or {}
        except HarnessError as e:
            print("HARNESS-ERROR property=%s post-batch probe: %s" % (prop, e))
            return EXIT_HARNESS
        except Exception:
            print("HARNESS-ERROR property=%s post-batch probe:\n%s" % (prop, traceback.format_exc()))
            return EXIT_HARNESS
        for v in post.get("violations", []):
            path = os.path.join(VERIF_DIR, "replays", "%s-%s-post.json" % (prop, v["class"]))
            os.makedirs(os.path.dirname(path), exist_ok=True)
            with open(path, "w") as f:
                json.dump(core._jsonable(v), f, indent=1)
            print("VIOLATION property=%s replay=%s" % (prop, path))
            print("  class=%s (post-batch probe; re-run: %s)" % (v["class"], v.get("rerun", "")))
            print("  %s" % v["message"][:500])
            reported.append({"class": v["class"], "replay": path, "runs": 1, "replay_verified": None, "message": v["message"][:500]})
            exit_code = EXIT_VIOLATION
    for kf in known_lines.values():
        print("KNOWN-FINDING: property=%s %s" % (prop, kf["what"]))

    # determinism re-check on a sample
    sample_idx = [r["index"] for r in results if r["violation"] is None][:: max(1, len(results) // scn.RECHECK[tier])][: scn.RECHECK[tier]]
    shas = {r["index"]: r["sha"] for r in results}
    try:
        mism = determinism_recheck(scn, prop, tier, base_seed, sample_idx, shas)
    except Exception:
        print("HARNESS-ERROR property=%s determinism recheck failed:\n%s" % (prop, traceback.format_exc()))
        return EXIT_HARNESS
    if mism:
        print("HARNESS-ERROR property=%s determinism recheck: %d of %d re-executed runs produced a different event log" % (prop, mism, len(sample_idx)))
        return EXIT_HARNESS

    wall = time.time() - t0
    if not args.no_evidence:
        ev = scn.evidence(tier, results, counters)
        cov = {
            "evaluations": len(results),
            "distinct_nontrivial": distinct,
            "rule": scn.RULE,
            "samples": [
                {"run_index": r["index"], "run_seed": r["run_seed"], "config": r.get("config"), "first_events": r.get("head"),
                 "event_log_sha": r["sha"], "events": r["events"]}
                for r in results[:3]
            ],
            "runs_per_hour": int(len(results) / max(wall, 1e-9) * 3600),
            "seeds": {"VERIF_SEED": base_seed, "run_seed_rule": "H(VERIF_SEED, property, tier, run index)", "first": results[0]["run_seed"] if results else None},
            "simulated_steps": steps,
            "events_logged": events,
            "fault_counts": {k: counters.get(k, 0) for k in scn.FAULT_KEYS},
            "probes": {k: counters.get(k, 0) for k in scn.PROBE_KEYS},
            "probes_stuck_at_zero": [k for k in scn.PROBE_KEYS if counters.get(k, 0) == 0 and k not in scn.OPTIONAL_PROBES.get(tier, ())],
            "components": scn.COMPONENTS,
            "determinism_recheck": {"n": len(sample_idx), "mismatches": mism},
            "known_findings_matched": sorted(known_lines),
            "violations_reported": reported,
            "workers": args.workers,
        }
        cov.update(ev)
        cov.update(post.get("evidence", {}))
        doc = {
            "property_id": prop,
            "tier": tier,
            "seed": base_seed,
            "level": "exploration",
            "coverage": cov,
            "assumptions": scn.ASSUMPTIONS,
            "wall_s": round(wall, 2),
            "violations": len(reported),
        }
        os.makedirs(os.path.join(VERIF_DIR, "evidence"), exist_ok=True)
        with open(os.path.join(VERIF_DIR, "evidence", "%s.json" % prop), "w") as f:
            json.dump(core._jsonable(doc), f, indent=1)
    print("%s tier=%s runs=%d distinct=%d steps=%d violations=%d known=%d wall=%.1fs exit=%d" % (
        prop, tier, len(results), distinct, steps, len(reported), len(known_lines), wall, exit_code))
    return exit_code


def replay_file(scn, prop, path):
    with open(path) as f:
        doc = json.load(f)
    if "config" not in doc and hasattr(scn, "replay_post") and doc.get("class") == "hashseed_dependence":
        again, exact, msg = scn.replay_post(doc)
        if again:
            print("VIOLATION property=%s replay=%s" % (prop, path))
            print("  class=%s exact_reproduction=%s" % (doc["class"], exact))
            print("  %s" % msg)
            return EXIT_VIOLATION
        print("REPLAY property=%s file=%s: no violation reproduced" % (prop, path))
        return EXIT_OK
    if "config" not in doc:
        # a post-batch probe violation (compiled probes, hash-seed re-execution): re-run the probe command
        print("REPLAY property=%s file=%s is a post-batch probe finding (class %s); re-run: %s" % (prop, path, doc.get("class"), doc.get("rerun") or "./check %s --tier thorough" % prop))
        if doc.get("rerun"):
            p = subprocess.run(doc["rerun"], shell=True, capture_output=True, text=True, cwd=VERIF_DIR)
            print(p.stdout[-1500:])
            bad = '"mismatches": []' not in p.stdout
            if bad:
                print("VIOLATION property=%s replay=%s" % (prop, path))
                return EXIT_VIOLATION
        return EXIT_OK
    res = core.run_for(scn)(scn, doc["config"], tape_values=doc["tape"], keep_events=20)
    v = res["violation"]
    want = doc["violation"]
    if v is None:
        print("REPLAY property=%s file=%s: no violation reproduced" % (prop, path))
        return EXIT_OK
    same = v["class"] == want["class"] and v.get("step") == want.get("step") and res["sha"] == doc["event_log_sha"]
    print("VIOLATION property=%s replay=%s" % (prop, path))
    print("  class=%s step=%s exact_reproduction=%s" % (v["class"], v.get("step"), same))
    print("  %s" % v["message"][:600])
    return EXIT_VIOLATION


def verify_replay_fresh(prop, path):
    """Replay the minimised file in a fresh interpreter."""
    try:
        p = subprocess.run([os.path.join(VERIF_DIR, "check"), prop, "--replay", path],
                           capture_output=True, text=True, timeout=600)
        return p.returncode == EXIT_VIOLATION and "exact_reproduction=True" in p.stdout
    except Exception:
        return False
