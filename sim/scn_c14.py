"""C14 - posterior summaries are exact functionals of the retained trace.

The reference is the simulator's own event log (the state each chain held at
the end of each iteration, observed at the step seams), not the trace array.
"""
import math
from collections import Counter

from . import refmodel as ref
from . import wl_assemble, wl_call, wl_cli, wl_ped
from .core import Violation
from .engine_k import bootstrap

ID = "C14"
ENGINE = "K"
RUNS = {"quick": 4000, "thorough": 80000}
BATCH_WALL_CAP = {"quick": 1500, "thorough": 6 * 3600}
RUN_WALL_CAP = 600
RECHECK = {"quick": 12, "thorough": 200}
MIN_BUDGET = 60
MIN_WALL = 240.0
TOL = 1e-12

RULE = (
    "one evaluation = one simulated sampler run (assemble, call or pedigree, or 5% `mchap assemble` / `call` / `call-pedigree` end to end; 1-3 chains, different start states, hot / flat posteriors, row-order perturbation) whose "
    "trace summaries are compared, for every burn-in length, with the same functionals computed from the simulator's own event log; "
    "distinct_nontrivial = distinct (workload, ploidy, chains, burn-in, empirical distribution) tuples in which the retained log held at least two distinct genotypes"
)
FAULT_KEYS = ["row_permute", "adversarial_choice", "shuffle", "exchange_accepted"]
PROBE_KEYS = ["summaries_asked_again", "long_allele_traces", "long_locus_traces", "summaries_checked", "burn_values", "multi_genotype_logs", "mode_ties", "support_ties", "incongruence_checked", "incongruence_1", "incongruence_2",
              "incongruence_tie_skip", "as_array_checked", "ped_individuals", "chains_disagree", "cli_reports_checked", "cli_null_alleles", "cli_allele_frequencies_checked"]
OPTIONAL_PROBES = {"quick": ("cli_null_alleles",), "thorough": ()}
COMPONENTS = {
    "real": ["mchap.assemble.classes.{GenotypeMultiTrace,PosteriorGenotypeDistribution,GenotypeSupportDistribution}", "mchap.calling.classes.{GenotypeAllelesMultiTrace,PosteriorGenotypeAllelesDistribution}",
             "mchap.pedigree.classes.PedigreeAllelesMultiTrace", "mchap.mset", "mchap.calling.utils.posterior_as_array", "the three samplers producing the traces (interpreted)",
             "cli workload: mchap.application.{assemble,call,call_exact,call_pedigree}.program end to end (GT / GPM / SPM of the printed record vs the trace its sampler returned)"],
    "stub": ["numpy.random.* and random_choice (tape)"],
}
ASSUMPTIONS = [
    "ties between equally frequent genotypes / supports: any maximiser is accepted; the incongruence flag is skipped (and counted) when a chain's mode support is tied",
    "incongruence flag: chains whose mode-support probability reaches the threshold are compared - by their set of distinct haplotypes (assemble traces) or by the most frequent genotype of that set (allele-index traces), as each class documents; 1 if they differ, 2 if together they carry more distinct alleles than the ploidy",
]


def prepare(tier):
    bootstrap()


def gen_config(rng, tier, index=0):
    if rng.random() < 0.05:
        which = rng.choice(["assemble", "assemble", "call-pedigree", "call"])
        if which == "assemble":
            cfg = wl_cli.gen_assemble_config(rng, tier)
            cfg["mcmc_steps"] = rng.choice([8, 12, 20])
            cfg["mcmc_burn"] = rng.choice([0, 2, 5])
        elif which == "call-pedigree":
            cfg = wl_cli.gen_pedigree_config(rng, tier)
            cfg["mcmc_steps"] = rng.choice([6, 10, 14])
            cfg["mcmc_burn"] = rng.choice([0, 2, 4])
        else:
            cfg = wl_cli.gen_call_config(rng, tier)
        cfg["workload"] = "cli"
        cfg["cli_program"] = which
        return cfg
    w = rng.choice(["assemble", "assemble", "walk", "call", "call", "pedigree", "awalk"])
    if w == "awalk":
        long = rng.random() < 0.12
        return {"workload": "awalk", "ploidy": rng.choice([1, 2, 3, 4, 6]), "n_allele": rng.choice([2, 3, 4, 5, 5, 70, 130, 300]),
                "steps": rng.randint(10500, 14000) if long else rng.randint(2, 40), "chains": rng.choice([1, 2, 3]),
                "move_rate": rng.choice([0.0005, 0.002]) if long else rng.choice([0.1, 0.5, 0.9]),
                "threshold": rng.choice([0.0, 0.3, 0.6, 0.9])}
    if w == "walk":
        return {"workload": "walk", "ploidy": rng.choice([2, 3, 4, 6]), "n_pos": rng.choice([1, 3, 8, 22, 23, 24, 30, 40, 64, 80]),
                "steps": rng.randint(2, 8), "chains": rng.choice([1, 2, 3]), "threshold": rng.choice([0.0, 0.3, 0.6, 0.9])}
    if w == "assemble":
        cfg = wl_assemble.gen_config(rng, tier, "trace")
        cfg["entry"] = "fit"
        cfg["chains"] = rng.choice([1, 2, 2, 3])
        cfg["steps"] = rng.randint(2, 7)
        cfg["n_reads"] = rng.choice([0, 0, 1, 2, 4])
        cfg["initial"] = rng.choice(["random", "dup_pairs", "dup_all", "none"])
        cfg["row_permute"] = rng.random() < 0.6
        cfg["cache"] = {"mode": "off", "initial_size": 64, "max_size": 2 ** 16}
        cfg["threshold"] = rng.choice([0.0, 0.3, 0.6, 0.6, 0.9])
        # chains that settle: very few moves so that mode supports reach the threshold
        if rng.random() < 0.5:
            cfg["freeze"] = True
            cfg["adv_rate"] = 0.0
            cfg["n_reads"] = rng.choice([4, 8])
            cfg["gap_rate"] = 0.0
        return cfg
    if w == "call":
        cfg = wl_call.gen_config(rng, tier, "trace")
        cfg["chains"] = rng.choice([1, 2, 3])
        cfg["entry"] = rng.choice(["fit", "sampler"])
        cfg["threshold"] = rng.choice([0.0, 0.3, 0.6, 0.9])
        cfg["n_reads"] = rng.choice([0, 0, 1, 2, 4, 7])
        return cfg
    cfg = wl_ped.gen_config(rng, tier, "trace")
    cfg["entry"] = "fit"
    cfg["chains"] = rng.choice([1, 2, 3])
    cfg["steps"] = rng.randint(2, 5)
    cfg["threshold"] = rng.choice([0.0, 0.3, 0.6])
    return cfg


# ---------------------------------------------------------------------------
# independent summaries from an event log
# ---------------------------------------------------------------------------


def distribution(chains, burn):
    """chains: list (per chain) of canonical keys per iteration -> {key: prob}; conservation checked."""
    cnt = Counter()
    total = 0
    for ch in chains:
        for k in ch[burn:]:
            cnt[k] += 1
            total += 1
    return {k: v / total for k, v in cnt.items()}, total


def support_groups(dist, support_of):
    groups = {}
    for k, p in dist.items():
        groups.setdefault(support_of(k), {})[k] = p
    return groups


def expected_incongruence(chains, burn, support_of, ploidy, threshold):
    """Returns (flag or None when tied, per-chain supports)."""
    sups = []
    for ch in chains:
        d, _ = distribution([ch], burn)
        groups = support_groups(d, support_of)
        tot = {s: sum(g.values()) for s, g in groups.items()}
        best = max(tot.values())
        arg = [s for s, v in tot.items() if abs(v - best) <= TOL]
        if len(arg) > 1:
            return None, None
        # a support whose probability is within rounding of the threshold is ambiguous
        if abs(best - threshold) <= TOL:
            return None, None
        if best >= threshold:
            sups.append(arg[0])
    if len(set(sups)) <= 1:
        return 0, sups
    alleles = set()
    for s in sups:
        alleles |= set(s)
    return (2 if len(alleles) > ploidy else 1), sups


def expected_incongruence_alleles(chains, burn, support_of, ploidy, threshold):
    """Allele-index traces (call, call-pedigree): a chain qualifies when the total probability of its
    most probable allele set reaches the threshold and is represented by the most frequent genotype
    within that set; 1 if the representatives differ, 2 if together they carry more alleles than the
    ploidy.  Returns (None, None) when any maximiser is tied."""
    reps = []
    for ch in chains:
        d, _ = distribution([ch], burn)
        groups = support_groups(d, support_of)
        tot = {s: sum(g.values()) for s, g in groups.items()}
        best = max(tot.values())
        arg = [s for s, v in tot.items() if abs(v - best) <= TOL]
        if len(arg) > 1 or abs(best - threshold) <= TOL:
            return None, None
        g = groups[arg[0]]
        gbest = max(g.values())
        garg = [k for k, v in g.items() if abs(v - gbest) <= TOL]
        if len(garg) > 1:
            return None, None
        if best >= threshold:
            reps.append(garg[0])
    if len(set(reps)) <= 1:
        return 0, reps
    alleles = set()
    for r in reps:
        alleles |= set(r)
    return (2 if len(alleles) > ploidy else 1), reps


def execute(ctx):
    cfg = ctx.config
    w = cfg["workload"]
    if w == "assemble":
        check_assemble(ctx)
    elif w == "walk":
        run_walk(ctx)
    elif w == "awalk":
        run_allele_walk(ctx)
    elif w == "call":
        check_call(ctx)
    elif w == "cli":
        check_cli(ctx)
    else:
        check_ped(ctx)


def check_cli(ctx):
    """`mchap assemble` end to end: the GT / GPM / SPM it prints for every sample are the functionals of the trace its own
    sampler returned, after removing exactly --mcmc-burn steps, with haplotypes spelled as sequences over the locus' SNVs."""
    cfg = ctx.config
    if cfg.get("cli_program") == "call-pedigree":
        # every individual's printed GT / GPM vs its own retained trace (mixed ploidy, masked / filtered alleles, unsequenced members)
        return wl_cli.run_pedigree_cli(ctx, report=True)
    if cfg.get("cli_program") == "call":
        # mchap call / call-exact: printed GT / GPM vs retained trace / enumeration (also run under C02)
        return wl_cli.run_call_cli(ctx)
    burn = cfg["mcmc_burn"]
    fits = []
    ds, recs, parsed = wl_cli.run_assemble_cli(ctx, fits.append)
    by = {(r["locus"], r["sample"]): r for r in fits}
    support_of = lambda k: tuple(sorted(set(k)))
    for vr in parsed:
        seqs = [vr["ref"]] + vr["alts"]
        for s in ds["samples"]:
            rec = by[(vr["id"], s)]
            G = rec["trace"]
            chains = [[ref.hap_key(G[c, i]) for i in range(G.shape[1])] for c in range(G.shape[0])]
            dist, total = distribution(chains, burn)
            groups = support_groups(dist, support_of)
            tot = {k: sum(g.values()) for k, g in groups.items()}
            fld = vr["samples"][s]
            gt = fld["GT"].replace("|", "/").split("/")
            where = "locus %s, sample %s, --mcmc-burn %d" % (vr["id"], s, burn)
            if len(gt) != rec["ploidy"]:
                fail(ctx, "cli_report", "GT %s has %d alleles for ploidy %d (%s)" % (fld["GT"], len(gt), rec["ploidy"], where), kind="cli")
            # chain incongruence (printed MCI) is a functional of the RETAINED steps of each chain (--mcmc-chain-incongruence-threshold, default 0.60)
            if "MCI" in fld and fld["MCI"] not in (".", ""):
                judge_assemble_incongruence(ctx, lambda thr_: int(fld["MCI"]), chains, burn, support_of, rec["ploidy"],
                                            0.60 if cfg.get("mci_threshold") is None else cfg["mci_threshold"], where=" [printed MCI; %s]" % where)
            # per-allele posterior frequency / occurrence of every allele the record lists (the reference included, masked or not)
            if fld.get("AFP") not in (None, ".", "") and fld.get("AOP") not in (None, ".", ""):
                afp = [float(x) if x != "." else float("nan") for x in fld["AFP"].split(",")]
                aop = [float(x) if x != "." else float("nan") for x in fld["AOP"].split(",")]
                if len(afp) == len(seqs) and len(aop) == len(seqs):
                    for ai, seq in enumerate(seqs):
                        try:
                            hk = tuple(al.index(seq[off]) for off, al in zip(rec["snv_offsets"], rec["snv_alleles"]))
                        except ValueError:
                            continue
                        ef = sum(p_ * k_.count(hk) / rec["ploidy"] for k_, p_ in dist.items())
                        eo = sum(p_ for k_, p_ in dist.items() if hk in k_)
                        if not (abs(afp[ai] - ef) <= 0.00051) or not (abs(aop[ai] - eo) <= 0.00051):
                            fail(ctx, "cli_report", "allele %d of the record: AFP=%r AOP=%r printed; its haplotype has posterior frequency %.6f and occurrence %.6f in the retained trace (%s)"
                                 % (ai, afp[ai], aop[ai], ef, eo, where), kind="cli")
                    ctx.counters.inc("cli_allele_frequencies_checked")
                else:
                    fail(ctx, "cli_report", "AFP / AOP list %d / %d values for %d alleles (%s)" % (len(afp), len(aop), len(seqs), where), kind="cli")
            if "." in gt:
                # a haplotype below --haplotype-posterior-threshold is printed as a null allele: the genotype is not fully spelled
                ctx.counters.inc("cli_null_alleles")
                continue
            # the printed genotype, read back through the record's own REF / ALT sequences into allele codes at the locus' SNVs
            try:
                key = []
                for a in gt:
                    seq = seqs[int(a)]
                    if any(seq[i] != rec["refseq"][i] for i in range(len(seq)) if i not in rec["snv_offsets"]) or len(seq) != len(rec["refseq"]):
                        raise ValueError(seq)
                    key.append(tuple(al.index(seq[off]) for off, al in zip(rec["snv_offsets"], rec["snv_alleles"])))
                key = tuple(sorted(key))
            except (ValueError, IndexError):
                fail(ctx, "cli_report", "GT %s spells a haplotype that is not a combination of the locus' SNV alleles on the reference (%s)" % (fld["GT"], where), kind="cli")
                continue
            want_gpm = dist.get(key, 0.0)
            want_spm = tot.get(support_of(key), 0.0)
            if abs(float(fld["GPM"]) - want_gpm) > 0.00051:
                fail(ctx, "cli_report", "GT %s with GPM=%s printed; that genotype holds %.6f of the retained trace (%s)" % (fld["GT"], fld["GPM"], want_gpm, where), kind="cli")
            if abs(float(fld["SPM"]) - want_spm) > 0.00051:
                fail(ctx, "cli_report", "SPM=%s printed; genotypes with the printed genotype's set of haplotypes hold %.6f of the retained trace (%s)" % (fld["SPM"], want_spm, where), kind="cli")
            # selection: either documented rule is accepted (most frequent genotype, or most frequent genotype of the most frequent support)
            is_mode = close(want_gpm, max(dist.values()))
            in_mode_support = close(want_spm, max(tot.values())) and close(want_gpm, max(groups[support_of(key)].values()))
            if not (is_mode or in_mode_support):
                fail(ctx, "cli_report", "GT %s is neither the most frequent genotype of the retained trace nor the most frequent genotype of its most frequent support (%s)" % (fld["GT"], where), kind="cli")
            ctx.counters.inc("cli_reports_checked")
            if len(dist) > 1:
                ctx.key("cli-report", rec["ploidy"], cfg["mcmc_chains"], burn, tuple(sorted(dist.values())))


class BurnHistory:
    """The order in which a caller slices and summarises a trace object is itself a history: direct
    burn(n) from the full trace, incremental burn(1) chains (burn -> posterior -> burn ...), or summaries
    taken from the parent before any burn.  The result for a total burn-in of n must not depend on it."""

    def __init__(self, ctx, trace):
        self.mode = ["direct", "incremental", "parent_first", "direct"][ctx.tape.int(0, 3)]
        self.trace = trace
        self.cur = trace
        self.n = 0
        ctx.counters.inc("burn_history_" + self.mode)
        if self.mode == "parent_first":
            trace.posterior()
            if hasattr(trace, "posterior_frequencies"):
                trace.posterior_frequencies()

    def at(self, burn):
        if self.mode != "incremental":
            return self.trace.burn(burn)
        while self.n < burn:
            self.cur = self.cur.burn(1)
            self.n += 1
        return self.cur if burn > 0 else self.trace.burn(0)


def close(a, b):
    return abs(float(a) - float(b)) <= TOL


def fail(ctx, cls, msg, **detail):
    ctx.violate(cls, msg, detail)


# -- assemble -----------------------------------------------------------------


def check_assemble(ctx):
    cfg = ctx.config
    np = bootstrap()["np"]
    if cfg.get("freeze"):
        cfg = dict(cfg, p_recomb=0.0, p_partial=0.0, p_dosage=0.0, temperatures=[1.0])
    sim = wl_assemble.AssembleSim(ctx, cfg, checks=())
    kind, trace = sim.run()
    chains = [[ref.hap_key(states[-1]) for states, _ in snaps] for _, snaps, _ in sim.history]
    check_assemble_trace(ctx, cfg, trace, chains)


def run_walk(ctx):
    """Long-locus sub-scenario: a tape-driven walk over genotypes (mutate one site, copy one haplotype
    over another, permute the stored rows) recorded both as the simulator's log of canonical multisets
    and - in whatever row order the walk left it - as the stored trace handed to GenotypeMultiTrace."""
    cfg = ctx.config
    np = bootstrap()["np"]
    t = ctx.tape
    pl, n_pos, steps = cfg["ploidy"], cfg["n_pos"], cfg["steps"]
    chains, stored = [], []
    for c in range(cfg["chains"]):
        base = [t.int(0, 1) for _ in range(n_pos)]
        g = [list(base) for _ in range(pl)]
        if c > 0 and t.chance(0.5):
            g[0][t.int(0, n_pos - 1)] ^= 1
        keys, rows = [], []
        for i in range(steps):
            for _ in range(t.int(0, 2)):
                op = t.int(0, 2)
                if op == 0:
                    g[t.int(0, pl - 1)][t.int(0, n_pos - 1)] ^= 1
                elif op == 1 and pl > 1:
                    a, b = t.int(0, pl - 1), t.int(0, pl - 1)
                    g[a] = list(g[b])
                else:
                    # a site in the leading part of a long locus
                    g[t.int(0, pl - 1)][t.int(0, max(0, n_pos - 23))] ^= 1
            perm = list(range(pl))
            for k in range(pl - 1, 0, -1):
                j = t.int(0, k)
                perm[k], perm[j] = perm[j], perm[k]
            g = [g[k] for k in perm]
            ctx.counters.inc("row_permute")
            keys.append(ref.hap_key(g))
            rows.append([list(r) for r in g])
        chains.append(keys)
        stored.append(rows)
    ctx.log.add("walk", pl, n_pos, [len(set(ch)) for ch in chains])
    trace = bootstrap()["aclasses"].GenotypeMultiTrace(np.array(stored, dtype=np.int8), np.zeros((cfg["chains"], steps)))
    if n_pos > 22:
        ctx.counters.inc("long_locus_traces")
    check_assemble_trace(ctx, cfg, trace, chains)


def run_allele_walk(ctx):
    """Allele-index traces of any length (incl. > 10 000 retained steps with rarely visited genotypes):
    a tape-driven walk, recorded as the simulator's log and as the stored trace of a GenotypeAllelesMultiTrace."""
    cfg = ctx.config
    m = bootstrap()
    np = m["np"]
    t = ctx.tape
    pl, na, steps = cfg["ploidy"], cfg["n_allele"], cfg["steps"]
    chains, stored = [], []
    for c in range(cfg["chains"]):
        g = sorted(t.int(0, na - 1) for _ in range(pl))
        keys, rows = [], []
        home = list(g)
        away = 0
        for i in range(steps):
            if steps > 10000:
                # long traces: a home genotype with brief excursions, so that some genotypes are visited
                # only once or twice among > 10 000 retained steps
                if away > 0:
                    away -= 1
                    if away == 0:
                        g = list(home)
                elif t.chance(cfg["move_rate"]):
                    g = sorted(t.int(0, na - 1) for _ in range(pl))
                    away = t.int(1, 3)
            elif t.chance(cfg["move_rate"]):
                g = list(g)
                g[t.int(0, pl - 1)] = t.int(0, na - 1)
                g = sorted(g)
            keys.append(tuple(g))
            rows.append(list(g))
        chains.append(keys)
        stored.append(rows)
    trace = m["cclasses"].GenotypeAllelesMultiTrace(np.array(stored, dtype=np.int64), np.zeros((cfg["chains"], steps)), na)
    if steps > 10000:
        ctx.counters.inc("long_allele_traces")
    ctx.log.add("awalk", pl, na, steps, [len(set(ch)) for ch in chains])
    burns = None
    if steps > 60:
        burns = sorted({0, 1, steps // 10, 1000 if steps > 2000 else steps // 3, steps - 1, t.int(0, steps - 1)})
    check_alleles_trace(ctx, "call", trace, chains, pl, na, steps, cfg["chains"], cfg["threshold"], burns=burns)


def judge_assemble_incongruence(ctx, flag_of, chains, burn, support_of, pl, thr, where=""):
    """Compares the assemble chain-incongruence flag with the documented functional of the per-chain empirical distributions of the
    retained steps.  flag_of(threshold) -> the flag under test."""
    want, sups = expected_incongruence(chains, burn, support_of, pl, thr)
    if want is None:
        ctx.counters.inc("incongruence_tie_skip")
        return
    gotf = flag_of(thr)
    ctx.counters.inc("incongruence_checked")
    if want:
        ctx.counters.inc("incongruence_%d" % want)
        ctx.counters.inc("chains_disagree")
    if gotf != want:
        # what the flag would be if 'ploidy' were the number of distinct haplotypes in the first qualifying chain's support
        alleles = set()
        for s_ in sups:
            alleles |= set(s_)
        alt = 0 if len(set(sups)) <= 1 else (2 if len(alleles) > len(sups[0]) else 1)
        fail(ctx, "incongruence_flag",
             "assemble replicate_incongruence=%r, documented functional of the per-chain empirical distributions gives %r (ploidy %d, %d distinct haplotypes over qualifying chains)%s" % (gotf, want, pl, len(alleles), where),
             kind="assemble", got=gotf, expected=want, burn=burn, ploidy=pl, supports=[list(s_) for s_ in sups],
             explained_by=("ploidy_taken_as_distinct_haplotypes_of_first_chain" if gotf == alt else None))


def check_assemble_trace(ctx, cfg, trace, chains):
    np = bootstrap()["np"]
    pl = cfg["ploidy"]
    steps = cfg["steps"]
    if len(chains) != cfg["chains"] or any(len(c) != steps for c in chains):
        fail(ctx, "trace_accounting", "event log has %r iterations per chain, expected %d x %d" % ([len(c) for c in chains], cfg["chains"], steps))
    support_of = lambda k: tuple(sorted(set(k)))
    hist = BurnHistory(ctx, trace)
    for burn in range(steps):
        ctx.step = burn
        ctx.counters.inc("burn_values")
        tb = hist.at(burn)
        dist, total = distribution(chains, burn)
        if total != cfg["chains"] * (steps - burn):
            fail(ctx, "trace_accounting", "retained iterations %d != chains*(steps-burn)" % total)
        post = tb.posterior()
        got = {}
        for g, p in zip(post.genotypes, post.probabilities):
            k = ref.hap_key(g)
            if k in got:
                fail(ctx, "posterior_mismatch", "posterior lists the same unordered genotype twice (storage order leaked into the distribution)", genotype=g, burn=burn)
            got[k] = float(p)
        if set(got) != set(dist) or any(not close(got[k], dist[k]) for k in dist):
            fail(ctx, "posterior_mismatch", "assemble posterior after burn(%d) is not the empirical distribution of the retained event log" % burn,
                 burn=burn, got=sorted(got.values()), expected=sorted(dist.values()))
        if not close(sum(got.values()), 1.0):
            fail(ctx, "posterior_mismatch", "posterior probabilities sum to %r" % sum(got.values()), burn=burn)
        if len(dist) > 1:
            ctx.counters.inc("multi_genotype_logs")
        # mode
        mg, mp = post.mode()
        best = max(dist.values())
        if sum(1 for v in dist.values() if close(v, best)) > 1:
            ctx.counters.inc("mode_ties")
        if not close(mp, best) or not close(dist.get(ref.hap_key(mg), -1), best):
            fail(ctx, "mode_mismatch", "assemble mode / mode probability is not a maximiser of the empirical distribution", burn=burn, got=float(mp), expected=best)
        # mode genotype support
        groups = support_groups(dist, support_of)
        tot = {s: sum(g.values()) for s, g in groups.items()}
        sbest = max(tot.values())
        if sum(1 for v in tot.values() if close(v, sbest)) > 1:
            ctx.counters.inc("support_ties")
        sup = post.mode_genotype_support()
        sp = float(np.sum(sup.probabilities))
        sgot = {ref.hap_key(g): float(p) for g, p in zip(sup.genotypes, sup.probabilities)}
        ssets = {support_of(k) for k in sgot}
        if len(ssets) != 1:
            fail(ctx, "support_mismatch", "mode genotype support mixes different allele sets", burn=burn)
        s = next(iter(ssets))
        if not close(sp, sbest) or not close(tot[s], sbest) or set(sgot) != set(groups[s]) or any(not close(sgot[k], groups[s][k]) for k in sgot):
            fail(ctx, "support_mismatch", "mode support probability %r is not the largest total probability of genotypes sharing one set of distinct haplotypes (%r)" % (sp, sbest), burn=burn)
        smg, smp = sup.mode_genotype()
        if not close(smp, max(groups[s].values())) or not close(groups[s].get(ref.hap_key(smg), -1), smp):
            fail(ctx, "support_mismatch", "mode genotype within the mode support is not its most frequent member", burn=burn)
        al = sup.alleles()
        if tuple(sorted(tuple(int(v) for v in h) for h in al)) != s:
            fail(ctx, "support_mismatch", "alleles() of the mode support are not its distinct haplotypes", burn=burn)
        # allele frequencies / occurrence
        haps, freqs, occ = post.allele_frequencies()
        ef, eo = Counter(), Counter()
        for k, p in dist.items():
            for h, c in Counter(k).items():
                ef[h] += p * c / pl
                eo[h] += p
        gk = [tuple(int(v) for v in h) for h in haps]
        if sorted(gk) != sorted(ef) or len(set(gk)) != len(gk):
            fail(ctx, "allele_frequency_mismatch", "allele_frequencies lists a different set of haplotypes than the retained log", burn=burn)
        for h, f, o in zip(gk, freqs, occ):
            if not close(f, ef[h]) or not close(o, eo[h]):
                fail(ctx, "allele_frequency_mismatch", "posterior frequency / occurrence of a haplotype deviates from the retained log (%r/%r vs %r/%r)" % (float(f), float(o), ef[h], eo[h]), burn=burn)
        if not close(sum(float(f) for f in freqs), 1.0):
            fail(ctx, "allele_frequency_mismatch", "allele frequencies sum to %r" % float(np.sum(freqs)), burn=burn)
        _, dos, _ = post.allele_frequencies(dosage=True)
        if any(not close(d, f * pl) for d, f in zip(dos, freqs)):
            fail(ctx, "allele_frequency_mismatch", "dosage=True is not frequency x ploidy", burn=burn)
        # history of calls on ONE posterior object: a summary is a functional of the distribution, not of what was asked before
        # (tape-chosen repeats in tape-chosen order; every answer must equal the first one)
        first = {"freq": [float(f) for f in freqs], "dos": [float(d) for d in dos], "occ": [float(o) for o in occ], "mode": float(mp)}
        for _rep in range(ctx.tape.int(0, 2)):
            which = ctx.tape.int(0, 2)
            if which == 0:
                h2, f2, o2 = post.allele_frequencies()
                again = {"freq": [float(f) for f in f2], "occ": [float(o) for o in o2]}
            elif which == 1:
                h2, d2, o2 = post.allele_frequencies(dosage=True)
                again = {"dos": [float(d) for d in d2], "occ": [float(o) for o in o2]}
            else:
                again = {"mode": float(post.mode()[1])}
            ctx.counters.inc("summaries_asked_again")
            for k_, v_ in again.items():
                w_ = first[k_]
                same = close(v_, w_) if not isinstance(v_, list) else (len(v_) == len(w_) and all(close(x_, y_) for x_, y_ in zip(v_, w_)))
                if not same:
                    fail(ctx, "allele_frequency_mismatch" if k_ != "mode" else "mode_mismatch",
                         "asking the same posterior object again gives another answer for %s (%r, first %r)" % (k_, v_, w_), burn=burn)
        # incongruence
        judge_assemble_incongruence(ctx, lambda thr_: tb.replicate_incongruence(threshold=thr_), chains, burn, support_of, pl, cfg["threshold"])
        ctx.counters.inc("summaries_checked")
        if len(dist) > 1:
            ctx.key("assemble", pl, cfg["chains"], burn, tuple(sorted(dist.items())))


# -- call ---------------------------------------------------------------------


def check_alleles_trace(ctx, label, trace, chains, ploidy, n_allele, steps, n_chains, threshold, burns=None):
    """trace: GenotypeAllelesMultiTrace; chains: per chain list of sorted allele tuples."""
    np = bootstrap()["np"]
    support_of = lambda k: tuple(sorted(set(k)))
    hist = BurnHistory(ctx, trace)
    for burn in (range(steps) if burns is None else burns):
        ctx.step = burn
        ctx.counters.inc("burn_values")
        tb = hist.at(burn)
        dist, total = distribution(chains, burn)
        if total != n_chains * (steps - burn):
            fail(ctx, "trace_accounting", "retained iterations %d != chains*(steps-burn)" % total)
        post = tb.posterior()
        got = {}
        for g, p in zip(post.genotypes, post.probabilities):
            k = tuple(sorted(int(v) for v in g))
            if k in got:
                fail(ctx, "posterior_mismatch", "%s posterior lists the same unordered genotype twice" % label, burn=burn)
            got[k] = float(p)
        if set(got) != set(dist) or any(not close(got[k], dist[k]) for k in dist):
            fail(ctx, "posterior_mismatch", "%s posterior after burn(%d) is not the empirical distribution of the retained event log" % (label, burn),
                 burn=burn, got=sorted(got.values()), expected=sorted(dist.values()))
        if len(dist) > 1:
            ctx.counters.inc("multi_genotype_logs")
        best = max(dist.values())
        mg, mp = post.mode()
        if not close(mp, best) or not close(dist.get(tuple(sorted(int(v) for v in mg)), -1), best):
            fail(ctx, "mode_mismatch", "%s mode is not a maximiser of the empirical distribution" % label, burn=burn)
        groups = support_groups(dist, support_of)
        tot = {s: sum(g.values()) for s, g in groups.items()}
        sbest = max(tot.values())
        if sum(1 for v in tot.values() if close(v, sbest)) > 1:
            ctx.counters.inc("support_ties")
        g2, p2, sp2 = post.mode(genotype_support=True)
        k2 = tuple(sorted(int(v) for v in g2))
        s2 = support_of(k2)
        if not close(sp2, sbest) or not close(tot.get(s2, -1), sbest) or not close(p2, max(groups[s2].values())) or not close(dist.get(k2, -1), p2):
            fail(ctx, "support_mismatch", "%s mode(genotype_support=True) = (%r, %r, %r) is not (most frequent member, its probability, total) of the most probable allele set (total %r)" % (label, list(k2), float(p2), float(sp2), sbest), burn=burn)
        # G-ordered array (enumerated only while the genotype space is small; large allele sets: sparse check)
        n_gen = math.comb(n_allele + ploidy - 1, ploidy)
        if n_gen > 50000:
            if n_gen <= 5_000_000:
                arr = post.as_array(n_allele)
                idx_of = lambda g: sum(math.comb(a + k, k + 1) for k, a in enumerate(g))
                if len(arr) != n_gen or not close(float(np.sum(arr)), 1.0) or any(not close(arr[idx_of(g)], p) for g, p in dist.items()):
                    fail(ctx, "as_array_mismatch", "%s as_array over %d genotypes does not hold the empirical probabilities at their VCF indices" % (label, n_gen), burn=burn)
                ctx.counters.inc("as_array_checked")
            gens = None
        else:
            arr = post.as_array(n_allele)
            gens = ref.all_genotypes(n_allele, ploidy)
        if gens is not None:
            gens = [gens[i] for i in ref.vcf_order(gens)]
            if len(arr) != len(gens):
                fail(ctx, "as_array_mismatch", "%s as_array has %d entries for %d genotypes" % (label, len(arr), len(gens)), burn=burn)
            for i, g in enumerate(gens):
                if not close(arr[i], dist.get(g, 0.0)):
                    fail(ctx, "as_array_mismatch", "%s as_array[%d] (genotype %r) = %r, empirical probability %r" % (label, i, list(g), float(arr[i]), dist.get(g, 0.0)), burn=burn)
            ctx.counters.inc("as_array_checked")
        # frequencies, counts, occurrence
        fr, cn, oc = tb.posterior_frequencies()
        for a in range(n_allele):
            ec = sum(p * k.count(a) for k, p in dist.items())
            eo = sum(p for k, p in dist.items() if a in k)
            if not close(cn[a], ec) or not close(fr[a], ec / ploidy) or not close(oc[a], eo):
                fail(ctx, "allele_frequency_mismatch", "%s posterior_frequencies for allele %d: (%r, %r, %r), retained log gives (%r, %r, %r)" % (label, a, float(fr[a]), float(cn[a]), float(oc[a]), ec / ploidy, ec, eo), burn=burn)
        if not close(float(np.sum(fr)), 1.0) or not close(float(np.sum(cn)), ploidy):
            fail(ctx, "allele_frequency_mismatch", "%s frequencies sum to %r, counts to %r" % (label, float(np.sum(fr)), float(np.sum(cn))), burn=burn)
        want, sups = expected_incongruence_alleles(chains, burn, support_of, ploidy, threshold)
        if want is None:
            ctx.counters.inc("incongruence_tie_skip")
        else:
            gotf = tb.replicate_incongruence(threshold=threshold)
            ctx.counters.inc("incongruence_checked")
            if want:
                ctx.counters.inc("incongruence_%d" % want)
                ctx.counters.inc("chains_disagree")
            if gotf != want:
                fail(ctx, "incongruence_flag", "%s replicate_incongruence=%r, functional of the per-chain empirical distributions gives %r" % (label, gotf, want),
                     kind=label, got=gotf, expected=want, burn=burn, ploidy=ploidy, supports=[list(s_) for s_ in sups], explained_by=None)
        ctx.counters.inc("summaries_checked")
        if len(dist) > 1:
            ctx.key(label, ploidy, n_chains, burn, tuple(sorted(dist.items())))


def check_call(ctx):
    cfg = ctx.config
    m = bootstrap()
    np = m["np"]
    sim = wl_call.CallSim(ctx, cfg, checks=())
    kind, res = sim.run()
    chains = [[tuple(sorted(int(v) for v in s)) for s in ch] for ch in sim.history]
    if kind == "fit":
        trace = res
    else:
        trace = m["cclasses"].GenotypeAllelesMultiTrace(np.array([g for g, _ in res]), np.array([l for _, l in res]), len(sim.haps))
    if len(chains) != cfg["chains"] or any(len(c) != cfg["steps"] for c in chains):
        fail(ctx, "trace_accounting", "event log has %r iterations per chain, expected %d x %d" % ([len(c) for c in chains], cfg["chains"], cfg["steps"]))
    check_alleles_trace(ctx, "call", trace, chains, cfg["ploidy"], len(sim.haps), cfg["steps"], cfg["chains"], cfg["threshold"])


def check_ped(ctx):
    cfg = ctx.config
    sim = wl_ped.PedSim(ctx, cfg, checks=())
    kind, trace = sim.run()
    if len(sim.history) != cfg["chains"] or any(len(c) != cfg["steps"] for c in sim.history):
        fail(ctx, "trace_accounting", "event log has %r iterations per chain, expected %d x %d" % ([len(c) for c in sim.history], cfg["chains"], cfg["steps"]))
    for s in range(sim.ns):
        pl = int(sim.ploidy[s])
        chains = [[tuple(sorted(int(v) for v in X[s, :pl])) for X in ch] for ch in sim.history]
        ind = trace.individual(s)
        if ind.genotypes.shape[2] != pl:
            fail(ctx, "trace_accounting", "individual(%d) has ploidy %d in the trace, pedigree says %d" % (s, ind.genotypes.shape[2], pl))
        ctx.counters.inc("ped_individuals")
        check_alleles_trace(ctx, "pedigree", ind, chains, pl, len(sim.haps), cfg["steps"], cfg["chains"], cfg["threshold"])
    # burn on the pedigree trace itself removes the same iterations for every individual
    for burn in range(cfg["steps"]):
        tb = trace.burn(burn)
        if tb.genotypes.shape[1] != cfg["steps"] - burn:
            fail(ctx, "trace_accounting", "pedigree burn(%d) retains %d steps" % (burn, tb.genotypes.shape[1]))
        ind = tb.individual(0)
        pl = int(sim.ploidy[0])
        want = [[tuple(sorted(int(v) for v in X[0, :pl])) for X in ch[burn:]] for ch in sim.history]
        got = [[tuple(int(v) for v in g) for g in ch] for ch in ind.genotypes]
        if got != want:
            fail(ctx, "trace_accounting", "pedigree burn(%d).individual(0) does not hold the retained iterations of the event log" % burn)


def sut_exception_is_violation(e, ctx):
    return True


def shrink_candidates(cfg, violation):
    w = cfg["workload"]
    if w == "cli":
        return wl_cli.shrink_candidates(cfg)
    if w == "awalk":
        out = []
        for k, v in (("chains", 1), ("ploidy", 2), ("n_allele", 2), ("steps", max(2, cfg["steps"] // 2)), ("steps", cfg["steps"] - 1)):
            if cfg[k] != v and v >= 1:
                out.append(dict(cfg, **{k: v}))
        return out
    if w == "walk":
        out = []
        for k, v in (("chains", 1), ("ploidy", 2), ("steps", max(1, cfg["steps"] - 1)), ("n_pos", max(1, cfg["n_pos"] // 2)), ("n_pos", max(1, cfg["n_pos"] - 1))):
            if cfg[k] != v:
                out.append(dict(cfg, **{k: v}))
        return out
    if w == "assemble":
        out = wl_assemble.shrink_candidates(cfg, violation)
    elif w == "call":
        out = wl_call.shrink_candidates(cfg, violation)
    else:
        out = wl_ped.shrink_candidates(cfg, violation)
    # 'step' of a C14 violation is a burn-in value, not an iteration: do not truncate by it
    return [c for c in out if c.get("steps") == cfg.get("steps") or c.get("steps") == cfg.get("steps") - 1]


def evidence(tier, results, counters):
    return {"simulated_time": "not applicable: no clock or timer enters this property; progress is counted in sampler iterations (simulated_steps) and logged events"}
