"""C10 - samples are called independently; a pool equals the union of its reads.

One evaluation is a batch of program runs in ONE interpreter: the all-samples
run, every single-sample run, permutations and subsets of the samples, a pools
run and the same data with each pool's alignments physically merged into one
BAM - with RNG interference injected between the per-sample fits.  The only
channel by which one sample can influence another is process state carried
across the per-sample loop; the simulator controls that channel.
"""
import os
import random as _random
import shutil
import tempfile

from . import datasets
from .core import REPO, HarnessError, Violation
from .engine_p import ProcessSim, bootstrap
from . import scn_c08

ID = "C10"
ENGINE = "P"
ISOLATE = True  # every run in a forked child of the warmed parent
RUNS = {"quick": 200, "thorough": 6000}
BATCH_WALL_CAP = {"quick": 2400, "thorough": 8 * 3600}
RUN_WALL_CAP = 900
RECHECK = {"quick": 3, "thorough": 30}
MIN_BUDGET = 25
MIN_WALL = 300.0

RULE = (
    "one evaluation = one batch (program, dataset, options): all-samples run, every solo run, permuted / subset runs, pools run and physically merged run in one interpreter; "
    "distinct_nontrivial = distinct (program, dataset seed, run kind, sample set / order, interference pattern) runs whose sample columns were compared with the solo columns"
)
FAULT_KEYS = ["temperatures_file", "read_group_field_id", "shared_read_group_ids", "single_pool_name_runs", "inbreeding_file", "fit_interference", "prior_work", "permuted_runs", "subset_runs", "solo_runs", "pool_runs", "merged_runs", "multi_core_runs", "sample_in_two_pools"]
PROBE_KEYS = ["records_with_more_than_127_alt_alleles", "call_pool_start_state_tie_skipped", "exact_tie_skipped", "gl_values_compared", "pool_file_interleaved", "columns_compared", "records_compared_pool_vs_merged", "unknown_alleles_named_by_others", "alt_renumbered", "refmasked_solo_only",
              "programs_assemble", "programs_call", "programs_call_exact", "sample_in_two_pools", "fits_observed"]
OPTIONAL_PROBES = {"quick": ("alt_renumbered", "refmasked_solo_only", "exact_tie_skipped", "call_pool_start_state_tie_skipped"), "thorough": ()}
COMPONENTS = dict(scn_c08.COMPONENTS)
ASSUMPTIONS = [
    "read names are globally unique across samples (mates are merged by read name within a sample; the statement does not say what a reused name across pooled samples means)",
    "pool vs physically merged reads: distinct reads arrive in a different order, so likelihood sums differ in the last bit; a decision flipping on that is possible with probability ~1e-13 per draw and is not modelled",
    "assemble columns are compared through haplotype sequences (ALT numbering may legitimately change)",
]

PROGRAMS = ["assemble", "assemble", "call", "call-exact"]
SCALARS = ["GQ", "SQ", "DP", "RCOUNT", "RCALLS", "MEC", "MECP", "GPM", "SPM", "MCI"]


def prepare(tier):
    m = bootstrap()
    scn_c08.warm_compile(m)


child_init = scn_c08.child_init


def gen_config(rng, tier, index=0):
    cfg = _gen_config(rng, tier, index)
    if cfg["program"] == "call" and cfg["pools"] and "GL" not in cfg["report"]:
        # the genotype likelihoods are exact and independent of the chain: they keep the pool-vs-merged
        # comparison sharp even when the two chains legitimately differ (see trajectory_free_equal)
        cfg["report"] = sorted(cfg["report"] + ["GL"])
    return cfg


def _gen_config(rng, tier, index=0):
    cfg = _gen_config0(rng, tier, index)
    if rng.random() < 0.025:
        # a large cohort (40 tetraploids, 160 distinct ALT haplotypes at one locus): allele numbering beyond 127 / 255
        cfg.update(program="assemble", dataset="cohort", steps=120, chains=1, pools=False, n_perm=1, rg_field_id=False, temperatures=None,
                   inbreeding=None, threshold=None, report=sorted(set(cfg["report"]) - {"GP", "GL"}), cores=1)
    return cfg


def _gen_config0(rng, tier, index=0):
    return {
        "program": rng.choice(PROGRAMS),
        "dataset": "simple" if rng.random() < 0.25 else "synthetic",
        "data_seed": rng.randrange(2 ** 31),
        "mcmc_seed": rng.choice([0, 0, 1, 11, 42, 2 ** 31 - 1]),
        # short runs with several chains leave chains in disagreement (MCI > 0) often enough to be seen
        "chains": rng.choice([1, 2, 3, 3]),
        "steps": rng.choice([40, 60, 100, 9, 9, 15]),
        "report": sorted(rng.sample(["AFP", "ACP", "AOP", "SNVDP", "GL", "GL", "GP"], rng.choice([0, 1, 2, 3]))),
        "interference": rng.choice([None, "rng", "rng", "fit"]),
        "n_perm": rng.choice([1, 2]),
        "subset": rng.random() < 0.6,
        "pools": rng.random() < 0.7,
        "cores": rng.choice([1, 1, 1, 2, 3]),
        "threshold": rng.choice([None, None, 0.05, 0.5]),
        "temperatures": rng.choice([None, None, [0.3, 1.0], "file", "file"]),
        "inbreeding": rng.choice([None, None, "const", "file", "file"]),
        "opt_picks": [rng.random() for _ in range(2)],
        "rg_field_id": rng.random() < 0.12,
        "single_pool_name": rng.random() < 0.25,
    }


class Batch(scn_c08.Batch):
    def __init__(self, ctx):
        super().__init__(ctx)
        self.tmp_prefix = "verif-c10-"

    def bam_list(self, ds, samples, bams=None):
        p = self.path(".txt")
        bams = bams or ds["bams"]
        with open(p, "w") as f:
            for s in samples:
                f.write("%s\t%s\n" % (s, bams[s]))
        return p

    def ploidy_file(self, mapping):
        p = self.path(".ploidy")
        with open(p, "w") as f:
            for k, v in mapping.items():
                f.write("%s\t%d\n" % (k, v))
        return p

    def inbreeding_file(self, names, values):
        """One file for the whole batch (a superset of any run's samples), lines in tape-shuffled order."""
        lines = [(n, values[n]) for n in names]
        for i in range(len(lines) - 1, 0, -1):
            j = self.ctx.tape.int(0, i)
            lines[i], lines[j] = lines[j], lines[i]
        p = self.path(".inbreeding")
        with open(p, "w") as f:
            for n, v in lines:
                f.write("%s\t%s\n" % (n, v))
        return p

    def temperatures_file(self, names, ladders):
        """Per-sample ladders; the file may only name samples of the run (the parser asserts that)."""
        p = self.path(".temps")
        with open(p, "w") as f:
            for n in names:
                if ladders.get(n):
                    f.write("%s\t%s\n" % (n, "\t".join(str(t) for t in ladders[n])))
        return p

    def argv10(self, program, ds, bam_list, ploidy_file, hapvcf=None, pool_file=None, cores=1, inbreeding=None, temperatures_file=None):
        cfg = self.cfg
        a = ["mchap", program]
        if inbreeding is not None:
            a_inb = ["--inbreeding", inbreeding]
        else:
            a_inb = []
        if program == "assemble":
            a += ["--targets", ds["bed"], "--variants", ds["variants"], "--reference", ds["fasta"]]
            if cfg["threshold"] is not None:
                a += ["--haplotype-posterior-threshold", str(cfg["threshold"])]
        else:
            a += ["--haplotypes", hapvcf]
        a += ["--bam", bam_list, "--ploidy", ploidy_file] + a_inb + list(getattr(self, "extra_args", []))
        if pool_file:
            a += ["--sample-pool", pool_file]
        rep = sorted(set(cfg["report"]))
        if rep:
            a += ["--report"] + rep
        extra = self.mcmc_args(program)
        if "--mcmc-temperatures" in extra and self.cfg.get("temperatures") == "file":
            i = extra.index("--mcmc-temperatures")
            del extra[i:i + 2]
        if temperatures_file is not None and program == "assemble":
            extra += ["--mcmc-temperatures", temperatures_file]
        if inbreeding is not None:
            # --inbreeding is given per batch above; drop the option swarm's constant one
            while "--inbreeding" in extra:
                i = extra.index("--inbreeding")
                del extra[i:i + 2]
        a += extra + ["--cores", str(cores)]
        return a


def parse_record(line, samples):
    f = line.split("\t")
    ref, alts = f[3], ([] if f[4] == "." else f[4].split(","))
    info = dict(x.split("=", 1) if "=" in x else (x, True) for x in f[7].split(";"))
    keys = f[8].split(":")
    cols = {}
    for s, c in zip(samples, f[9:]):
        cols[s] = dict(zip(keys, c.split(":")))
        cols[s]["_raw"] = c
    seqs = [ref] + alts
    return {"id": f[2], "seqs": seqs, "refmasked": "REFMASKED" in info, "cols": cols, "line": line, "info": info}


def gt_sequences(rec, col):
    out = []
    for a in col["GT"].replace("|", "/").split("/"):
        out.append(None if a == "." else rec["seqs"][int(a)])
    return out


def per_seq(rec, col, key):
    if key not in col or col[key] == ".":
        return None
    vals = col[key].split(",")
    if len(vals) != len(rec["seqs"]):
        return None
    return {rec["seqs"][i]: vals[i] for i in range(len(vals))}


def exact_tie(program, a, b):
    """Narrow relaxation (pool vs physically merged reads, call-exact only): the distinct reads arrive in a
    different order, likelihood sums differ in the last bit, and the arg-max among EXACTLY tied genotypes may
    flip.  Accepted only if GT is the only field that differs (GPM, SPM, every other statistic string-equal)
    and, when GP is reported, both GTs carry the same (maximal) printed posterior."""
    if program != "call-exact":
        return False
    keys = [k for k in a if k not in ("_raw", "GT")]
    if set(a) != set(b) or any(a[k] != b[k] for k in keys):
        return False
    if "GP" in a and a["GP"] not in (".", ""):
        import itertools
        gp = a["GP"].split(",")
        pl = len(a["GT"].replace("|", "/").split("/"))
        n = 1
        while len(sorted(itertools.combinations_with_replacement(range(n), pl))) < len(gp):
            n += 1
        gens = sorted(itertools.combinations_with_replacement(range(n), pl), key=lambda g: tuple(reversed(g)))
        if len(gens) != len(gp):
            return False
        idx = {g: i for i, g in enumerate(gens)}
        try:
            ga = tuple(sorted(int(x) for x in a["GT"].replace("|", "/").split("/")))
            gb = tuple(sorted(int(x) for x in b["GT"].replace("|", "/").split("/")))
        except ValueError:
            return False
        vals = [float(v) for v in gp]
        return gp[idx[ga]] == gp[idx[gb]] and float(gp[idx[ga]]) >= max(vals) - 1e-9
    return True


TRAJECTORY_FREE = ("DP", "RCOUNT", "RCALLS", "SNVDP", "GL")


def trajectory_free_equal(a, b):
    """Narrow relaxation (pool vs physically merged reads, `call` only): the sampler's start state comes from
    greedy_caller, an arg-max that is decided by the last bit of the likelihood when alleles are exactly tied,
    and a pool delivers its distinct reads in another order than a merged BAM.  A different start state gives
    a different (equally valid) chain.  What must still agree exactly is everything that does not depend on
    the chain: depths, read counts and the genotype likelihoods."""
    if set(a) != set(b):
        return False
    return all(a.get(k) == b.get(k) for k in TRAJECTORY_FREE if k in a)


def per_genotype(rec, col, key, ploidy):
    """G-length field keyed by the multiset of haplotype sequences of each genotype (VCF order)."""
    import itertools
    if key not in col or col[key] in (".", ""):
        return None
    vals = col[key].split(",")
    n = len(rec["seqs"])
    gens = sorted(itertools.combinations_with_replacement(range(n), ploidy), key=lambda g: tuple(reversed(g)))
    if len(vals) != len(gens):
        return None
    return {tuple(sorted(rec["seqs"][a] for a in g)): v for g, v in zip(gens, vals)}


def execute(ctx):
    b = Batch(ctx)
    try:
        run_batch(ctx, b)
    finally:
        b.close()


def install_interference(ctx, m, kind):
    """Between the per-sample fits, perturb both RNGs (class-level wrappers, forwarding unchanged)."""
    np = m["np"]
    saved = []
    if kind is None:
        return saved
    targets = [(m["amcmc"].DenovoMCMC, "fit"), (m["cclasses"].CallingMCMC, "fit")]
    _DENOVO_FIT = m["amcmc"].DenovoMCMC.fit
    for cls, name in targets:
        orig = getattr(cls, name)

        def wrapper(self, *a, _orig=orig, **k):
            ctx.counters.inc("fits_observed")
            if ctx.tape.chance(0.6):
                np.random.seed(ctx.tape.int(0, 2 ** 31 - 1))
                m["jitutils"].seed_numba(ctx.tape.int(0, 2 ** 31 - 1))
                for _ in range(ctx.tape.int(0, 4)):
                    np.random.rand()
                ctx.counters.inc("fit_interference")
            out = _orig(self, *a, **k)
            if kind == "fit" and ctx.tape.chance(0.3):
                # another, unrelated fit squeezed in between two samples
                reads = np.full((2, 2, 2), 0.5)
                reads[0, :, 0] = 0.9
                reads[0, :, 1] = 0.1
                inner = m["amcmc"].DenovoMCMC(ploidy=2, n_alleles=[2, 2], steps=10, chains=1, random_seed=ctx.tape.int(0, 999), fix_homozygous=2.0)
                _DENOVO_FIT(inner, reads)
                ctx.counters.inc("prior_work")
            return out

        setattr(cls, name, wrapper)
        saved.append((cls, name, orig))
    return saved


class SkipBatch(Exception):
    pass


def failed(ctx, program, cls, message, r):
    """A run that fails although the all-samples run succeeded is a violation - unless it is observation O2
    (assemble --report GP raises IndexError whenever the reference haplotype is masked, which depends on
    which samples are present): then the batch is skipped."""
    if program == "assemble" and scn_c08.is_o2(r["error"]):
        ctx.counters.inc("o2_gp_refmasked_skip")
        raise SkipBatch()
    raise Violation(cls, message % (r["error"],), step=ctx.step)


def run_batch(ctx, b):
    try:
        return _run_batch(ctx, b)
    except SkipBatch:
        ctx.log.add("skip", "O2")


def _run_batch(ctx, b):
    cfg = ctx.config
    m = bootstrap()
    program = cfg["program"]
    ctx.counters.inc("programs_" + program.replace("-", "_"))
    ds = b.build_dataset()
    if ds.get("shared_read_group_ids"):
        ctx.counters.inc("shared_read_group_ids")
    samples = list(ds["samples"])
    ploidy = dict(ds["ploidy"])
    b.extra_args = []
    if cfg.get("rg_field_id") and ds.get("rg_ids") and cfg["dataset"] == "synthetic":
        # --read-group-field ID: every read group is its own sample
        units = sorted(ds["rg_ids"])
        ds = dict(ds)
        ds["bams"] = {u: ds["rg_ids"][u][1] for u in units}
        ploidy = {u: ploidy[ds["rg_ids"][u][0]] for u in units}
        samples = units
        b.extra_args = ["--read-group-field", "ID"]
        b.rg_field = "ID"
        ctx.counters.inc("read_group_field_id")
    pf_all = b.ploidy_file(ploidy)
    all_list = b.bam_list(ds, samples)
    day = scn_c08.DAY0
    hv = None
    if program != "assemble":
        r = b.run("assemble", b.argv10("assemble", ds, all_list, pf_all), day, seed_rng=False)
        if r["error"] is not None:
            ctx.counters.inc("input_preparation_failed_skip")
            return
        hv = datasets.write_vcf_subset(b.path(".vcf"), r["header"], [l for l in r["records"] if l])

    saved = install_interference(ctx, m, cfg["interference"])
    try:
        inb_values = {s: ["0.0", "0.1", "0.3", "0.05"][ctx.tape.int(0, 3)] for s in samples}
        inb_all = None
        if cfg.get("inbreeding") == "const":
            inb_all = "0.2"
        elif cfg.get("inbreeding") == "file":
            inb_all = b.inbreeding_file(samples, inb_values)
            ctx.counters.inc("inbreeding_file")

        ladder_choices = [None, [0.5], [0.2, 0.6], [0.1]]
        ladders = {s: ladder_choices[ctx.tape.int(0, 3)] for s in samples}
        if cfg.get("temperatures") == "file":
            ctx.counters.inc("temperatures_file")

        def run(sample_order, bams=None, pf=None, pool_file=None, cores=1, names=None, inb="default"):
            lst = b.bam_list(ds, sample_order, bams)
            tf = None
            if cfg.get("temperatures") == "file" and program == "assemble":
                cols = names or sample_order
                # units that are not plain samples (pools, whether given by a pool file or by merged BAMs):
                # the alphabetically first unit is heated, so that both forms of the same pools agree
                lad = ladders if all(c in ladders for c in cols) else {sorted(cols)[0]: [0.3]}
                tf = b.temperatures_file(cols, lad)
            argv = b.argv10(program, ds, lst, pf or pf_all, hapvcf=hv, pool_file=pool_file, cores=cores,
                            inbreeding=inb_all if inb == "default" else inb, temperatures_file=tf)
            r = b.run(program, argv, day, seed_rng=True)
            if r["error"] is not None:
                return None, r
            cols = names or sample_order
            recs = {}
            for l in r["records"]:
                rec = parse_record(l, cols)
                recs[rec["id"]] = rec
            return recs, r

        joint, r0 = run(samples, cores=1)
        if joint is None:
            ctx.counters.inc("canonical_failed_skip")
            ctx.log.add("skip", repr(r0["error"])[:200])
            return
        ctx.log.add("joint", program, sorted(joint))
        if any(len(rec["seqs"]) > 128 for rec in joint.values()):
            ctx.counters.inc("records_with_more_than_127_alt_alleles")
        # solo runs
        solo = {}
        for s in samples:
            ctx.step += 1
            recs, r = run([s])
            ctx.counters.inc("solo_runs")
            if recs is None:
                failed(ctx, program, "solo_run_failed", "sample " + s + " analysed alone fails although the joint run succeeds: %r", r)
            solo[s] = recs
            compare_runs(ctx, program, "solo", joint, recs, [s])
            ctx.key(program, cfg["data_seed"], "solo", s, cfg["interference"])
        # permutations
        for k in range(cfg["n_perm"]):
            ctx.step += 1
            order = list(samples)
            for i in range(len(order) - 1, 0, -1):
                j = ctx.tape.int(0, i)
                order[i], order[j] = order[j], order[i]
            recs, r = run(order, cores=cfg["cores"])
            ctx.counters.inc("permuted_runs")
            if cfg["cores"] > 1:
                ctx.counters.inc("multi_core_runs")
            if recs is None:
                failed(ctx, program, "permuted_run_failed", "run with permuted BAM arguments fails: %r", r)
            compare_runs(ctx, program, "permuted", joint, recs, samples, full=True)
            ctx.key(program, cfg["data_seed"], "perm", tuple(order), cfg["interference"])
        # subset
        if cfg["subset"] and len(samples) > 2:
            ctx.step += 1
            n = ctx.tape.int(2, len(samples) - 1)
            sub = [s for s in samples]
            while len(sub) > n:
                sub.pop(ctx.tape.int(0, len(sub) - 1))
            recs, r = run(sub)
            ctx.counters.inc("subset_runs")
            if recs is None:
                failed(ctx, program, "subset_run_failed", "run on a subset of samples fails: %r", r)
            compare_runs(ctx, program, "subset", joint, recs, sub)
            for s in sub:
                compare_runs(ctx, program, "solo-vs-subset", recs, solo[s], [s])
            ctx.key(program, cfg["data_seed"], "subset", tuple(sub), cfg["interference"])
        # pools vs physically merged BAMs
        if cfg["pools"] and len(samples) >= 2:
            ctx.step += 1
            pools = make_pools(ctx, samples)
            pool_names = list(pools)
            pool_ploidy = {p: max(ploidy[s] for s in mem) if ctx.tape.chance(0.5) else min(6, sum(ploidy[s] for s in mem)) for p, mem in pools.items()}
            pf_pool = b.ploidy_file(pool_ploidy)
            pool_file = b.path(".pools")
            lines = [(s, p) for p, mem in pools.items() for s in mem]
            if ctx.tape.chance(0.6):
                # the lines of one pool need not be adjacent in the file
                for i in range(len(lines) - 1, 0, -1):
                    j = ctx.tape.int(0, i)
                    lines[i], lines[j] = lines[j], lines[i]
                ctx.counters.inc("pool_file_interleaved")
            with open(pool_file, "w") as f:
                for s, p in lines:
                    f.write("%s\t%s\n" % (s, p))
            # pool membership order (= order of first appearance) as the program will see it
            seen_order = {}
            for s, p in lines:
                seen_order.setdefault(p, []).append(s)
            pool_names = list(seen_order)
            if any(sum(1 for mem in pools.values() if s in mem) > 1 for s in samples):
                ctx.counters.inc("sample_in_two_pools")
            inb_pool = None
            if cfg.get("inbreeding") == "const":
                inb_pool = "0.2"
            elif cfg.get("inbreeding") == "file":
                inb_pool = b.inbreeding_file(pool_names, {p: ["0.0", "0.1", "0.3"][ctx.tape.int(0, 2)] for p in pool_names})
            prec, r = run(samples, pf=pf_pool, pool_file=pool_file, names=pool_names, inb=inb_pool)
            if cfg.get("single_pool_name") and prec is not None:
                # `--sample-pool NAME` (not a file) = one pool holding every sample: must equal the file form
                ctx.step += 1
                one = {"ALLPOOL": list(samples)}
                pf_one = b.ploidy_file({"ALLPOOL": min(6, max(ploidy.values()))})
                inb_one = None if inb_pool is None else ("0.2" if cfg.get("inbreeding") == "const" else b.inbreeding_file(["ALLPOOL"], {"ALLPOOL": "0.1"}))
                one_file = b.path(".pools")
                with open(one_file, "w") as f:
                    for s_ in samples:
                        f.write("%s\tALLPOOL\n" % s_)
                r_name, rr1 = run(samples, pf=pf_one, pool_file="ALLPOOL", names=["ALLPOOL"], inb=inb_one)
                r_file, rr2 = run(samples, pf=pf_one, pool_file=one_file, names=["ALLPOOL"], inb=inb_one)
                ctx.counters.inc("single_pool_name_runs")
                if r_name is None or r_file is None:
                    raise Violation("pool_run_failed", "single-pool run fails: %r / %r" % (rr1["error"], rr2["error"]), step=ctx.step)
                for lid in r_file:
                    if lid not in r_name or r_name[lid]["line"] != r_file[lid]["line"]:
                        raise Violation("pool_differs_from_merged", "`--sample-pool ALLPOOL` differs from the equivalent pool file at locus %s" % lid, step=ctx.step,
                                        detail={"by_name": (r_name.get(lid) or {}).get("line", "")[:300], "by_file": r_file[lid]["line"][:300]})
            ctx.counters.inc("pool_runs")
            if prec is None:
                failed(ctx, program, "pool_run_failed", "pooled run fails: %r", r)
            merged = merge_bams(b, m, ds, pools)
            mrec, r = run(pool_names, bams=merged, pf=pf_pool, inb=inb_pool)
            ctx.counters.inc("merged_runs")
            if mrec is None:
                failed(ctx, program, "merged_run_failed", "run on physically merged BAMs fails: %r", r)
            for lid in prec:
                if lid not in mrec:
                    raise Violation("pool_differs_from_merged", "locus %s missing from the merged-BAM run" % lid, step=ctx.step)
                if program == "assemble":
                    compare_runs(ctx, program, "pool-vs-merged", {lid: prec[lid]}, {lid: mrec[lid]}, pool_names, full=True, cls="pool_differs_from_merged")
                else:
                    for p in pool_names:
                        if prec[lid]["cols"][p]["_raw"] != mrec[lid]["cols"][p]["_raw"]:
                            if exact_tie(program, prec[lid]["cols"][p], mrec[lid]["cols"][p]):
                                ctx.counters.inc("exact_tie_skipped")
                                continue
                            if program == "call" and trajectory_free_equal(prec[lid]["cols"][p], mrec[lid]["cols"][p]):
                                ctx.counters.inc("call_pool_start_state_tie_skipped")
                                continue
                            raise Violation("pool_differs_from_merged",
                                            "pool %s (samples %r) at locus %s: pooled column differs from the column obtained from physically merged alignments" % (p, pools[p], lid),
                                            step=ctx.step, detail={"pool": prec[lid]["cols"][p]["_raw"][:200], "merged": mrec[lid]["cols"][p]["_raw"][:200]})
                ctx.counters.inc("records_compared_pool_vs_merged")
            ctx.key(program, cfg["data_seed"], "pools", tuple((p, tuple(mem)) for p, mem in pools.items()))
    finally:
        for cls, name, orig in saved:
            setattr(cls, name, orig)


def make_pools(ctx, samples):
    """Every sample in at least one pool; sometimes one sample in two pools."""
    pools = {}
    k = ctx.tape.int(1, max(1, len(samples) - 1))
    for i, s in enumerate(samples):
        pools.setdefault("POOL%d" % (ctx.tape.int(0, k - 1) + 1), []).append(s)
    if len(pools) > 1 and ctx.tape.chance(0.6):
        names = sorted(pools)
        s = samples[ctx.tape.int(0, len(samples) - 1)]
        for p in names:
            if s not in pools[p]:
                pools[p].append(s)
                break
    return dict(sorted(pools.items()))


def merge_bams(b, m, ds, pools):
    pysam = m["pysam"]
    out = {}
    for p, mem in pools.items():
        recs = []
        header = None
        for s in mem:
            with pysam.AlignmentFile(ds["bams"][s]) as f:
                hd = f.header.to_dict()
                if header is None:
                    header = {k: v for k, v in hd.items() if k != "RG"}
                if getattr(b, "rg_field", "SM") == "ID":
                    ids = {s}
                else:
                    ids = {g["ID"] for g in hd["RG"] if g["SM"] == s}
                for r in f:
                    if r.get_tag("RG") in ids:
                        d = r.to_dict()
                        # alignments of different samples are different reads even if a read name is
                        # reused across samples (the repo's own test files do that): keep names unique
                        d["name"] = "%s:%s" % (s, d["name"])
                        recs.append(d)
        header["RG"] = [{"ID": p, "SM": p, "LB": "lib", "PL": "Illumina", "PU": "u"}]
        hdr = pysam.AlignmentHeader.from_dict(header)
        segs = []
        for d in recs:
            d = dict(d)
            d["tags"] = [t for t in d["tags"] if not t.startswith("RG:")] + ["RG:Z:" + p]
            segs.append(pysam.AlignedSegment.from_dict(d, hdr))
        segs.sort(key=lambda x: (x.reference_id, x.reference_start))
        path = b.path(".bam")
        with pysam.AlignmentFile(path, "wb", header=hdr) as f:
            for sgm in segs:
                f.write(sgm)
        pysam.index(path)
        out[p] = path
    return out


def compare_runs(ctx, program, kind, ref_recs, other, samples, full=False, cls=None):
    """Compare the columns of `samples` between two runs (records keyed by locus id)."""
    cls = cls or "sample_column_depends_on_other_samples"
    for lid, orec in other.items():
        if lid not in ref_recs:
            raise Violation(cls, "%s run emitted locus %s that the reference run did not" % (kind, lid), step=ctx.step)
        rrec = ref_recs[lid]
        for s in samples:
            a, o = rrec["cols"][s], orec["cols"][s]
            ctx.counters.inc("columns_compared")
            if program != "assemble":
                if a["_raw"] != o["_raw"]:
                    raise Violation(cls, "%s: column of %s at %s differs between the two runs" % (kind, s, lid), step=ctx.step,
                                    detail={"kind": kind, "sample": s, "locus": lid, "reference": a["_raw"][:300], "other": o["_raw"][:300]})
                continue
            for k in SCALARS:
                if a.get(k) != o.get(k):
                    raise Violation(cls, "%s: %s of %s at %s is %r in one run and %r in the other" % (kind, k, s, lid, a.get(k), o.get(k)), step=ctx.step,
                                    detail={"kind": kind, "sample": s, "locus": lid, "field": k})
            ga, go = gt_sequences(rrec, a), gt_sequences(orec, o)
            na, no = sorted(x for x in ga if x is not None), sorted(x for x in go if x is not None)
            if full:
                # same set of samples (permutation / pool-vs-merged): the called haplotype sequences must be identical
                if na != no or len(ga) != len(go):
                    raise Violation(cls, "%s: called haplotype sequences of %s at %s differ" % (kind, s, lid), step=ctx.step,
                                    detail={"kind": kind, "sample": s, "locus": lid, "reference": ga, "other": go})
                if rrec["seqs"] != orec["seqs"]:
                    ctx.counters.inc("alt_renumbered")
            else:
                # `other` has fewer samples: its named haplotypes are a sub-multiset of the reference's; the rest were '.'
                rest = list(na)
                for x in no:
                    if x in rest:
                        rest.remove(x)
                    else:
                        raise Violation(cls, "%s: haplotype %s called for %s at %s is not called when other samples are present" % (kind, x, s, lid), step=ctx.step,
                                        detail={"kind": kind, "sample": s, "locus": lid, "reference": ga, "other": go})
                if len(ga) != len(go) or len(rest) > sum(1 for x in go if x is None):
                    raise Violation(cls, "%s: GT of %s at %s is not the other run's GT with some unknown alleles named" % (kind, s, lid), step=ctx.step,
                                    detail={"kind": kind, "sample": s, "locus": lid, "reference": ga, "other": go})
                if rest:
                    ctx.counters.inc("unknown_alleles_named_by_others")
                if orec["refmasked"] and not rrec["refmasked"]:
                    ctx.counters.inc("refmasked_solo_only")
            ploidy_s = len(ga)
            for k in ("GL", "GP"):
                ma, mo = per_genotype(rrec, a, k, ploidy_s), per_genotype(orec, o, k, ploidy_s)
                if k == "GP" and (rrec["refmasked"] or orec["refmasked"]):
                    continue  # with a masked reference the G-length array is sized differently (O2 territory)
                if (ma is None) != (mo is None) and k in a and k in o and a[k] not in (".", "") and o[k] not in (".", ""):
                    raise Violation(cls, "%s: %s of %s at %s has %d values in one run and %d in the other for %d / %d alleles" % (
                        kind, k, s, lid, len(a[k].split(",")), len(o[k].split(",")), len(rrec["seqs"]), len(orec["seqs"])), step=ctx.step,
                        detail={"kind": kind, "sample": s, "locus": lid, "field": k})
                if ma is None or mo is None:
                    continue
                for gk in set(ma) & set(mo):
                    if ma[gk] != mo[gk]:
                        raise Violation(cls, "%s: %s of %s at %s for genotype %r is %s in one run and %s in the other" % (kind, k, s, lid, list(gk), ma[gk], mo[gk]), step=ctx.step,
                                        detail={"kind": kind, "sample": s, "locus": lid, "field": k})
                    ctx.counters.inc("gl_values_compared")
            for k in ("AFP", "ACP", "AOP"):
                pa, po = per_seq(rrec, a, k), per_seq(orec, o, k)
                if pa is None or po is None:
                    continue
                for sq in set(pa) & set(po):
                    if sq == rrec["seqs"][0] and (rrec["refmasked"] or orec["refmasked"]):
                        continue
                    if pa[sq] != po[sq]:
                        raise Violation(cls, "%s: %s of haplotype %s for %s at %s is %s vs %s" % (kind, k, sq, s, lid, pa[sq], po[sq]), step=ctx.step,
                                        detail={"kind": kind, "sample": s, "locus": lid, "field": k})


def sut_exception_is_violation(e, ctx):
    return False


def shrink_candidates(cfg, violation):
    out = []
    for k, v in (("rg_field_id", False), ("single_pool_name", False), ("inbreeding", None), ("interference", None), ("pools", False), ("subset", False), ("n_perm", 1), ("cores", 1), ("chains", 1), ("report", []), ("threshold", None)):
        if cfg.get(k) != v:
            out.append(dict(cfg, **{k: v}))
    if cfg["dataset"] != "simple":
        out.append(dict(cfg, dataset="simple"))
    return out


def evidence(tier, results, counters):
    return {"simulated_time": "not applicable: C10 has no clock dependence; the simulated calendar is held fixed"}
