"""Call-sampler workload under engine K (C02, C09, C14)."""
import math
import random as _random

from . import refmodel as ref
from .core import HarnessError, Violation
from .engine_k import Seams, SimRandom, bind, bootstrap, rel_close

TOL_LOG = 1e-8
TOL_P = 1e-9
UNDERFLOW = -690.0
TINY = 1e-300  # below this a double is (nearly) denormal: treated like an underflowed zero


def gen_config(rng, tier, flavor="db"):
    big = tier == "thorough"
    n_pos = rng.choice([1, 2, 3, 4])
    n_alleles = [rng.choice([2, 2, 2, 3]) for _ in range(n_pos)]
    space = 1
    for a in n_alleles:
        space *= a
    n_haps = min(space, rng.choice([2, 2, 3, 4, 5, 6]))
    if n_haps < 2:
        n_haps = 2
    cfg = {
        "workload": "call",
        "ploidy": rng.choice([1, 2, 2, 3, 4, 4, 6]),
        "n_alleles": n_alleles,
        "n_haps": n_haps,
        "freqs": rng.choice(["flat", "flat", "skewed", "tiny"]),
        "n_reads": rng.choice([0, 1, 2, 4, 7]),
        "data_seed": rng.randrange(2 ** 31),
        "gap_rate": rng.choice([0.0, 0.2, 0.5]),
        "counts": rng.choice(["ones", "ints"]),
        "err_style": rng.choice(["norm", "third"]),
        "inbreeding": rng.choice([0.0, 0.0, 0.05, 0.3, 0.9, 0.99, 0.001, 0.0005, 0.0002]),
        "step_type": rng.choice(["Gibbs", "Metropolis-Hastings"]),
        "steps": rng.randint(3, 8 if not big else 15),
        "chains": rng.choice([1, 2, 2, 3]),
        "initial": rng.choice(["greedy", "random", "homozygous"]),
        "entry": rng.choice(["fit", "sampler", "steps"]),
        "cache": rng.random() < 0.7,
        "adv_rate": rng.choice([0.0, 0.3, 1.0]),
        "unsorted_start": rng.random() < 0.3,
        "dup_haplotype": rng.random() < 0.06,
        "refit": rng.random() < 0.25,
    }
    if rng.random() < 0.06:
        # an allele with prior frequency exactly 0 handed to the library (the programs mask such alleles, the API accepts them):
        # its exact posterior is 0 whatever the reads say - including reads that favour it by hundreds of log units
        cfg["freqs"] = "zero"
        cfg["inbreeding"] = 0.0
        cfg["initial"] = rng.choice(["random", "homozygous"])
        cfg["counts"] = rng.choice(["ints", "huge", "huge"])
        cfg["n_reads"] = rng.choice([1, 2, 4, 7])
        cfg["gap_rate"] = rng.choice([0.0, 0.2])
    if space < 2:
        cfg["n_alleles"][0] = 2
    if flavor == "db" and rng.random() < 0.04:
        # tiny shapes on which the exact one-sweep kernel is extracted (see check_sweep_kernel)
        cfg["ploidy"] = rng.choice([1, 2, 2, 3])
        cfg["n_alleles"] = [2, 2]
        cfg["n_haps"] = rng.choice([2, 3])
        cfg["n_reads"] = rng.choice([0, 1, 2, 3])
        cfg["sweep_kernel"] = True
        cfg["dup_haplotype"] = False
        return cfg
    if rng.random() < (0.015 if flavor != "trace" else 0.0):
        # rare large shapes: pools / high ploidy with many known haplotypes (index arithmetic, cache keys)
        cfg["ploidy"] = rng.choice([3, 5, 7, 8, 10, 12, 32])
        if cfg["ploidy"] == 32:
            cfg["n_alleles"] = [2, 2, 2]
            cfg["n_haps"] = rng.choice([4, 5, 6, 8])
        else:
            cfg["n_alleles"] = [2] * rng.choice([6, 7])
            cfg["n_haps"] = rng.choice([20, 34, 40, 66, 72])
        cfg["n_reads"] = rng.choice([1, 2, 3])
        cfg["steps"] = 2
        cfg["chains"] = 1
        cfg["big"] = True
        cfg["cache"] = True
        cfg["entry"] = rng.choice(["fit", "sampler", "steps"])
    elif rng.random() < (0.012 if flavor != "trace" else 0.0):
        # rare wide shapes: more known haplotypes than an int8 can index (the haplotype ARRAY is int8 as the programs hand it
        # over; allele INDICES reach 128-255), ordinary ploidy
        cfg["ploidy"] = rng.choice([2, 3, 4])
        cfg["n_alleles"] = [2] * 8
        cfg["n_haps"] = rng.choice([130, 150, 200, 256])
        cfg["n_reads"] = rng.choice([1, 2, 3])
        cfg["steps"] = 2
        cfg["chains"] = 1
        cfg["big"] = True
        cfg["wide"] = True
        cfg["initial"] = rng.choice(["random", "random", "greedy"])
        cfg["inbreeding"] = rng.choice([0.0, 0.05, 0.3, 0.3])
        cfg["dup_haplotype"] = False
        if cfg["freqs"] == "zero":
            cfg["freqs"] = "skewed"
    return cfg


def gen_instance(cfg):
    np = bootstrap()["np"]
    rng = _random.Random(cfg["data_seed"])
    n_alleles = cfg["n_alleles"]
    n_pos = len(n_alleles)
    amax = max(n_alleles)
    haps = set()
    space = 1
    for a in n_alleles:
        space *= a
    nh = min(cfg["n_haps"], space)
    while len(haps) < nh:
        haps.add(tuple(rng.randrange(a) for a in n_alleles))
    haps = sorted(haps)
    rng.shuffle(haps)
    if cfg.get("dup_haplotype") and len(haps) >= 2:
        # two alleles with the same sequence (legal for the API: alleles are labels)
        haps[-1] = haps[0]
    haplotypes = np.array(haps, dtype=np.int8)
    n_reads = cfg["n_reads"]
    reads = np.zeros((n_reads, n_pos, amax), dtype=np.float64)
    for r in range(n_reads):
        hap = rng.choice(haps)
        for j in range(n_pos):
            if rng.random() < cfg["gap_rate"]:
                reads[r, j, :] = np.nan
                continue
            a = hap[j] if rng.random() < 0.8 else rng.randrange(n_alleles[j])
            p = rng.choice([0.6, 0.9, 0.99, 0.999])
            if cfg["err_style"] == "third":
                reads[r, j, : n_alleles[j]] = (1 - p) / 3
            else:
                reads[r, j, : n_alleles[j]] = (1 - p) / (n_alleles[j] - 1)
            reads[r, j, a] = p
    if cfg["counts"] == "huge":
        counts = np.array([rng.choice([50, 200, 800]) for _ in range(n_reads)], dtype=np.int64)
    elif cfg["counts"] == "ints":
        counts = np.array([rng.choice([1, 1, 2, 3, 5]) for _ in range(n_reads)], dtype=np.int64)
    else:
        counts = np.ones(n_reads, dtype=np.int64)
    if cfg["freqs"] == "flat":
        freqs = None
        fl = [1.0 / nh] * nh
    else:
        if cfg["freqs"] == "zero":
            w = [rng.random() + 0.05 for _ in range(nh)]
            for i in rng.sample(range(nh), rng.randint(1, max(1, nh - 1))):
                w[i] = 0.0
            if not any(w):
                w[0] = 1.0
            if nh > 1 and all(w):
                w[-1] = 0.0
        elif cfg["freqs"] == "tiny":
            w = [rng.choice([1e-6, 1e-3, 1.0, 1.0]) for _ in range(nh)]
            w[rng.randrange(nh)] = 1.0
        else:
            w = [rng.random() + 0.05 for _ in range(nh)]
        s = sum(w)
        freqs = np.array([x / s for x in w], dtype=np.float64)
        fl = [float(x) for x in freqs]
    return haplotypes, reads, counts, freqs, fl


class CallSim:
    def __init__(self, ctx, cfg, checks=("db",)):
        self.ctx = ctx
        self.cfg = cfg
        self.checks = set(checks)
        self.m = bootstrap()
        self.np = self.m["np"]
        self.haps, self.reads, self.counts, self.freqs, self.fl = gen_instance(cfg)
        self.haps_l = self.haps.tolist()
        self.reads_l = self.reads.tolist()
        self.counts_l = [int(c) for c in self.counts]
        self.F = float(cfg["inbreeding"])
        self.rng = SimRandom(ctx, adv_rate=cfg.get("adv_rate", 0.0))
        self.real = {}
        self.history = []  # per chain: list of states after each compound step
        self.traj = []
        self.cur_chain = None
        self.scan = None
        self.in_probe = 0
        self._lord = {}
        self.user_cache = None
        self.seen = set()

    def viol(self, cls, msg, **detail):
        raise Violation(cls, msg, step=self.ctx.step, detail=detail)

    # reference ordered log density: L(G) P(G) / nperm(G)
    def lord(self, g):
        k = ref.allele_key(g)
        v = self._lord.get(k)
        if v is None:
            v = (ref.read_llk(self.reads_l, self.counts_l, [self.haps_l[a] for a in k])
                 + ref.lprior_call(k, self.fl, self.F) - ref.ln_nperm_alleles(k))
            self._lord[k] = v
        return v

    def llk_ref(self, g):
        return ref.read_llk(self.reads_l, self.counts_l, [self.haps_l[int(a)] for a in g])

    def fresh_llk(self, g):
        return float(self.m["clikelihood"].log_likelihood_alleles(self.reads, self.counts, self.haps, self.np.asarray(g)))

    def install(self, seams):
        m = self.m
        cmcmc, cclasses = m["cmcmc"], m["cclasses"]
        R = self.real
        R["gibbs"] = cmcmc.gibbs_options
        R["mh"] = cmcmc.mh_options
        R["compound"] = cmcmc.compound_step
        R["sampler"] = cclasses.mcmc_sampler
        R["cached"] = cmcmc.log_likelihood_alleles_cached
        if cclasses.mcmc_sampler is not cmcmc.mcmc_sampler:
            raise HarnessError("calling.classes.mcmc_sampler is not calling.mcmc.mcmc_sampler")
        self.rng.install(seams, [cmcmc])
        seams.set(cmcmc, "gibbs_options", self.w_gibbs)
        seams.set(cmcmc, "mh_options", self.w_mh)
        seams.set(cmcmc, "compound_step", self.w_compound)
        seams.set(cclasses, "mcmc_sampler", self.w_sampler)
        seams.set(cmcmc, "mcmc_sampler", self.w_sampler)
        seams.set(cmcmc, "log_likelihood_alleles_cached", self.w_cached)

    def start_state(self, chain):
        np = self.np
        rng = _random.Random(self.cfg["data_seed"] ^ (0x77 + chain))
        nh, pl = len(self.haps), self.cfg["ploidy"]
        mode = self.cfg["initial"]
        ok = [i for i in range(nh) if self.fl[i] > 0]  # start states have positive prior density
        if mode == "homozygous":
            g = [rng.choice(ok)] * pl
        else:
            g = [rng.choice(ok) for _ in range(pl)]
        if not self.cfg.get("unsorted_start"):
            g = sorted(g)
        return np.array(g, dtype=np.int64)

    def run(self):
        cfg = self.cfg
        np = self.np
        m = self.m
        st = 0 if cfg["step_type"] == "Gibbs" else 1
        entry = cfg["entry"]
        if entry == "sampler":
            import inspect
            params = inspect.signature(m["cmcmc"].mcmc_sampler).parameters
            if not {"genotype_alleles", "haplotypes", "reads", "read_counts", "inbreeding", "frequencies", "n_steps", "cache", "step_type"} <= set(params):
                entry = "fit"  # the direct entry point changed its signature: drive the sampler through the public class instead
                self.ctx.counters.inc("sampler_entry_unavailable")
        with Seams() as seams:
            self.install(seams)
            if entry == "fit":
                model = m["cclasses"].CallingMCMC(
                    ploidy=cfg["ploidy"], haplotypes=self.haps, frequencies=self.freqs, inbreeding=self.F,
                    steps=cfg["steps"], chains=cfg["chains"], random_seed=11, step_type=cfg["step_type"])
                init = None if cfg["initial"] == "greedy" else self.start_state(0)
                trace = model.fit(self.reads, read_counts=self.counts, initial=init)
                if cfg.get("refit"):
                    # the same model object fitted again to other reads: nothing (caches, state) may survive
                    cfg2 = dict(cfg, data_seed=cfg["data_seed"] + 1)
                    _, reads2, counts2, _, _ = gen_instance(cfg2)
                    if reads2.shape[1:] == self.reads.shape[1:]:
                        self.reads, self.counts = reads2, counts2
                        self.reads_l, self.counts_l = reads2.tolist(), [int(c) for c in counts2]
                        self._lord.clear()
                        self.seen.clear()
                        del self.history[:]
                        trace = model.fit(self.reads, read_counts=self.counts, initial=init)
                        self.ctx.counters.inc("refit_same_model")
                self.result = ("fit", trace)
                # what fit() returns must be the states the sampler held (every chain, every step)
                G = np.asarray(trace.genotypes)
                if len(self.history) != cfg["chains"] or any(len(h) != cfg["steps"] for h in self.history):
                    self.viol("trace_accounting", "CallingMCMC.fit ran %r sampler steps per chain, expected %d chains x %d steps" % ([len(h) for h in self.history], cfg["chains"], cfg["steps"]))
                if G.shape != (cfg["chains"], cfg["steps"], cfg["ploidy"]):
                    self.viol("trace_accounting", "CallingMCMC.fit returned a trace of shape %r" % (G.shape,))
                for c, h in enumerate(self.history):
                    for i, st in enumerate(h):
                        if not np.array_equal(G[c, i], st):
                            self.viol("trace_state_mismatch", "fit() trace[%d,%d] is not the state the sampler held after that step" % (c, i), trace=G[c, i], expected=st)
            elif entry == "sampler":
                traces = []
                for c in range(cfg["chains"]):
                    gt, lt = m["cmcmc"].mcmc_sampler(
                        genotype_alleles=self.start_state(c), haplotypes=self.haps, reads=self.reads, read_counts=self.counts,
                        inbreeding=self.F, frequencies=self.freqs, n_steps=cfg["steps"], cache=bool(cfg["cache"]), step_type=st)
                    traces.append((gt, lt))
                self.result = ("sampler", traces)
            else:
                # harness-driven loop with a caller-supplied cache (audited afterwards)
                traces = []
                for c in range(cfg["chains"]):
                    g = self.start_state(c)
                    cache = {-1: float("nan")} if cfg["cache"] else None
                    self.user_cache = cache
                    self.cur_chain = {"states": [], "llks": []}
                    gs = []
                    for i in range(cfg["steps"]):
                        self.ctx.step = i
                        m["cmcmc"].compound_step(
                            genotype_alleles=g, haplotypes=self.haps, reads=self.reads, read_counts=self.counts,
                            inbreeding=self.F, frequencies=self.freqs, llk_cache=cache, step_type=st)
                        gs.append(g.copy())
                    self.history.append(self.cur_chain["states"])
                    self.cur_chain = None
                    traces.append(gs)
                    if cache is not None and "cache" in self.checks:
                        self.audit_cache(cache)
                self.result = ("steps", traces)
        return self.result

    def audit_cache(self, cache):
        """Every value the cache serves equals the freshly computed one - queried through the real
        cached function for every genotype the run looked up (no assumption about the key scheme)."""
        for g in sorted(self.seen):
            ga = self.np.array(g, dtype=self.np.int64)
            self.in_probe += 1
            try:
                val = float(self.real["cached"](self.reads, self.counts, self.haps, ga, cache))
            finally:
                self.in_probe -= 1
            fresh = self.fresh_llk(ga)
            self.ctx.counters.inc("cache_entries_audited")
            if not rel_close(val, fresh):
                self.viol("cache_entry_wrong", "call llk cache serves %r for genotype %r, recomputed %r" % (val, list(g), fresh))

    # -- seams --------------------------------------------------------------
    def w_sampler(self, *args, **kwargs):
        a = bind(self.real["sampler"], args, kwargs)
        self.cur_chain = {"states": [], "llks": []}
        self.ctx.log.add("sampler_enter", a.get("genotype_alleles"), int(a["n_steps"]), int(a.get("step_type", 0)))
        gt, lt = self.real["sampler"](**a)
        ch = self.cur_chain
        self.cur_chain = None
        self.history.append(ch["states"])
        np = self.np
        if len(ch["states"]) != int(a["n_steps"]):
            self.viol("orchestration", "observed %d compound steps for n_steps=%d" % (len(ch["states"]), int(a["n_steps"])))
        for i, s in enumerate(ch["states"]):
            if not np.array_equal(np.asarray(gt[i]), s):
                self.viol("trace_state_mismatch", "call trace[%d] is not the state held after compound step %d" % (i, i), trace=gt[i], expected=s)
            if not rel_close(float(lt[i]), self.fresh_llk(s)):
                self.viol("trace_llk_mismatch", "call llk trace[%d]=%r, recomputed %r" % (i, float(lt[i]), self.fresh_llk(s)), state=s)
        return gt, lt

    def w_compound(self, *args, **kwargs):
        a = bind(self.real["compound"], args, kwargs)
        np = self.np
        g = a["genotype_alleles"]
        self.scan = []
        if self.cur_chain is not None and self.cfg["entry"] != "steps":
            self.ctx.step = len(self.cur_chain["states"])
        # draw-level verification: the vector each move is actually drawn from (not merely what
        # gibbs_options returned at some point) must be the exact full conditional of the state at that moment
        pending = []
        gibbs = int(a["step_type"]) == 0

        def on_choice(vec, idx):
            pending.append((np.array(vec), g.copy(), idx))

        self.rng.on_choice = on_choice if ("db" in self.checks and gibbs) else None
        try:
            llk = self.real["compound"](**a)
        finally:
            self.rng.on_choice = None
        for vec, before, idx in pending:
            self.check_gibbs_draw(vec, before, idx)
        scan, self.scan = self.scan, None
        self.ctx.log.add("compound", g, float(llk), scan)
        pl = len(g)
        # informational only: the statement does not require a full sweep, only that every move is stationary
        self.ctx.counters.inc("sweeps_full" if sorted(scan) == list(range(pl)) else "sweeps_partial_or_repeated")
        if any(g[i] > g[i + 1] for i in range(pl - 1)):
            self.viol("state_not_sorted", "genotype after compound step is not sorted: %r" % g.tolist())
        if "db" in self.checks:
            want = self.llk_ref(g)
            if not rel_close(float(llk), want, 1e-8):
                self.viol("carried_llk", "compound_step returned llk %r, reference likelihood of the final state is %r" % (float(llk), want), state=g, where="calling.compound_step")
        if "cache" in self.checks:
            fresh = self.fresh_llk(g)
            if not rel_close(float(llk), fresh):
                self.viol("carried_llk", "compound_step returned llk %r, recomputed %r" % (float(llk), fresh), state=g, where="calling.compound_step")
        if self.cur_chain is not None:
            self.cur_chain["states"].append(g.copy())
            self.cur_chain["llks"].append(float(llk))
        self.traj.append(("call", g.tobytes(), float(llk)))
        return llk

    def w_gibbs(self, *args, **kwargs):
        a = bind(self.real["gibbs"], args, kwargs)
        x = a["genotype_alleles"].copy()
        k = int(a["variable_allele"])
        out = self.real["gibbs"](**a)
        if self.in_probe:
            return out
        if self.scan is not None:
            self.scan.append(k)
        np = self.np
        vec = np.array(a["probabilities_array"], dtype=np.float64)
        self.record_kernel("call_gibbs", x, k, a, vec)
        if not np.array_equal(a["genotype_alleles"], x):
            self.viol("state_update", "gibbs_options did not restore the genotype", before=x, after=a["genotype_alleles"])
        if "db" in self.checks:
            nh = len(self.haps)
            cond = []
            for al in range(nh):
                y = x.copy()
                y[k] = al
                cond.append(self.lord(y))
            if max(cond) == -math.inf:
                # the other copies already hold an allele of prior probability 0: no conditional is defined
                self.ctx.counters.inc("zero_density_skip")
                return out
            want = ref.normalise_logs(cond)
            if self.cfg["freqs"] == "zero":
                self.ctx.counters.inc("zero_frequency_allele_move")
            dev = max(abs(float(vec[i]) - want[i]) for i in range(nh))
            self.ctx.counters.inc("gibbs_vectors")
            if self.F > 0:
                self.ctx.counters.inc("inbred_move")
            if self.freqs is not None:
                self.ctx.counters.inc("skewed_freq_move")
            if len(set(x.tolist())) < len(x):
                self.ctx.counters.inc("dup_state_move")
            if not (dev <= TOL_P):
                self.viol("gibbs_not_full_conditional",
                          "Gibbs vector deviates from the exact full conditional of the posterior by %.3g" % dev,
                          x=x, position=k, vector=vec, expected=want, inbreeding=self.F, freqs=self.fl)
            self.ctx.key("gibbs", len(x), tuple(self.cfg["n_alleles"]), nh, ref.allele_key(x), int(x[k]), self.F, self.cfg["freqs"])
        return out

    def check_sweep_kernel(self):
        """Tiny instances only: the exact one-sweep transition kernel of compound_step over unordered genotypes
        is extracted by scripting every random outcome (scan order x allele draws) through the seams, and the
        posterior must be stationary under it: sum_x pi(x) K(x, y) = pi(y).  Each single-copy move can be exact
        while the COMPOSED sweep (scan order + final sort) is not, e.g. if the scan order depends on the state."""
        import itertools
        np = self.np
        pl, nh = self.cfg["ploidy"], len(self.haps)
        states = ref.all_genotypes(nh, pl)
        orders = list(itertools.product(*[range(i + 1) for i in range(pl - 1, 0, -1)])) or [()]
        lpi = [self.lord(x) + ref.ln_nperm_alleles(x) for x in states]
        z = ref.log_sum_exp(lpi)
        pi = {x: math.exp(l - z) for x, l in zip(states, lpi)}
        st = 0 if self.cfg["step_type"] == "Gibbs" else 1
        K = {x: {} for x in states}
        with Seams() as seams:
            self.install(seams)
            self.in_probe += 1
            try:
                for x in states:
                    for fy in orders:
                        for ch in itertools.product(range(nh), repeat=pl):
                            g = np.array(x, dtype=np.int64)
                            prob = [1.0 / len(orders)]
                            k = [0]

                            def probe(vec, _ch=ch, _prob=prob, _k=k):
                                i = _ch[_k[0]] if _k[0] < len(_ch) else 0
                                _prob[0] *= float(vec[i])
                                _k[0] += 1
                                return i

                            self.rng.probe = probe
                            self.rng.int_script = list(fy)
                            try:
                                self.real["compound"](genotype_alleles=g, haplotypes=self.haps, reads=self.reads, read_counts=self.counts,
                                                      inbreeding=self.F, frequencies=self.freqs, llk_cache=None, step_type=st)
                            finally:
                                self.rng.probe = None
                                self.rng.int_script = None
                            if k[0] != pl:
                                raise HarnessError("compound_step made %d categorical draws for ploidy %d: the sweep kernel cannot be extracted" % (k[0], pl))
                            y = tuple(sorted(int(v) for v in g))
                            K[x][y] = K[x].get(y, 0.0) + prob[0]
            finally:
                self.in_probe -= 1
        for x in states:
            tot = sum(K[x].values())
            if abs(tot - 1.0) > 1e-9:
                self.viol("sweep_kernel_not_stochastic", "one-sweep kernel row of %r sums to %r" % (list(x), tot))
        worst, at = 0.0, None
        for y in states:
            inflow = sum(pi[x] * K[x].get(y, 0.0) for x in states)
            if abs(inflow - pi[y]) > worst:
                worst, at = abs(inflow - pi[y]), y
        self.ctx.counters.inc("sweep_kernels_extracted")
        self.ctx.key("sweep_kernel", pl, nh, st, self.F, self.cfg["freqs"], self.cfg["data_seed"])
        if worst > 1e-9:
            self.viol("sweep_not_stationary",
                      "the posterior is not stationary under one full compound step (scan + final sort): |sum_x pi(x)K(x,y) - pi(y)| = %.3g at y = %r" % (worst, list(at)),
                      ploidy=pl, n_haps=nh, step_type=self.cfg["step_type"], inbreeding=self.F, freqs=self.fl)

    def check_gibbs_draw(self, vec, before, idx):
        """`vec` was used to redraw ONE copy of `before`: it must be the exact conditional given the other
        copies, for some allele currently present (the position is not observable at the draw)."""
        nh = len(self.haps)
        if len(vec) != nh:
            self.viol("gibbs_draw_not_full_conditional", "a Gibbs move was drawn from a vector of length %d for %d haplotypes" % (len(vec), nh))
        best = None
        for old in sorted(set(int(v) for v in before)):
            pos = [i for i in range(len(before)) if int(before[i]) == old][0]
            cond = []
            for al in range(nh):
                y = before.copy()
                y[pos] = al
                cond.append(self.lord(y))
            if max(cond) == -math.inf:
                # the other copies already hold an allele of prior probability 0: no conditional is defined
                self.ctx.counters.inc("zero_density_skip")
                return
            want = ref.normalise_logs(cond)
            dev = max(abs(float(vec[i]) - want[i]) for i in range(nh))
            best = dev if best is None else min(best, dev)
            if dev <= TOL_P:
                self.ctx.counters.inc("gibbs_draws_verified")
                return
        self.viol("gibbs_draw_not_full_conditional",
                  "the vector a Gibbs move was drawn from is not the exact full conditional of any copy of the current genotype (best deviation %.3g)" % best,
                  state=before, vector=vec, inbreeding=self.F, freqs=self.fl)

    def _probe_mh(self, a, y, k):
        np = self.np
        nh = len(self.haps)
        l, p, pr = np.empty(nh), np.empty(nh), np.empty(nh)
        self.in_probe += 1
        try:
            self.real["mh"](genotype_alleles=y.copy(), variable_allele=k, haplotypes=a["haplotypes"], reads=a["reads"],
                            read_counts=a["read_counts"], inbreeding=a["inbreeding"], llks_array=l, lpriors_array=p,
                            probabilities_array=pr, frequencies=a["frequencies"], llk_cache=None)
        finally:
            self.in_probe -= 1
        return pr

    def w_mh(self, *args, **kwargs):
        a = bind(self.real["mh"], args, kwargs)
        x = a["genotype_alleles"].copy()
        k = int(a["variable_allele"])
        out = self.real["mh"](**a)
        if self.in_probe:
            return out
        if self.scan is not None:
            self.scan.append(k)
        np = self.np
        px = np.array(a["probabilities_array"], dtype=np.float64)
        self.record_kernel("call_mh", x, k, a, px)
        if not np.array_equal(a["genotype_alleles"], x):
            self.viol("state_update", "mh_options did not restore the genotype", before=x, after=a["genotype_alleles"])
        if "db" in self.checks:
            nh = len(self.haps)
            cur = int(x[k])
            lx = self.lord(x)
            targets = [al for al in range(nh) if al != cur]
            if len(targets) > 8:
                # large haplotype sets: reverse-probe a deterministic sample of the proposals
                r = _random.Random(repr((self.ctx.step, k, cur)))
                targets = sorted(r.sample(targets, 6))
            for al in targets:
                y = x.copy()
                y[k] = al
                ly = self.lord(y)
                if lx == -math.inf or ly == -math.inf:
                    self.ctx.counters.inc("zero_density_skip")
                    continue
                if px[al] <= TINY:
                    theo = min(0.0, ly - lx) - math.log(nh - 1)
                    if theo > UNDERFLOW:
                        self.viol("detailed_balance_call_mh", "forward probability 0, reference log p=%.3f" % theo, x=x, position=k, allele=al)
                    self.ctx.counters.inc("underflow_skip")
                    continue
                py = self._probe_mh(a, y, k)
                if py[cur] <= TINY:
                    theo = lx + math.log(px[al]) - ly
                    if theo > UNDERFLOW:
                        self.viol("detailed_balance_call_mh", "reverse probability 0, reference log p=%.3f" % theo, x=x, position=k, allele=al)
                    self.ctx.counters.inc("underflow_skip")
                    continue
                dev = abs(lx + math.log(px[al]) - ly - math.log(py[cur]))
                self.ctx.counters.inc("mh_pairs")
                if dev > TOL_LOG:
                    self.viol("detailed_balance_call_mh", "ordered detailed balance fails: log deviation %.3g" % dev,
                              x=x, position=k, allele=al, p_forward=float(px[al]), p_reverse=float(py[cur]), inbreeding=self.F, freqs=self.fl)
                self.ctx.key("mh", len(x), tuple(self.cfg["n_alleles"]), nh, ref.allele_key(x), cur, al, self.F, self.cfg["freqs"])
            if self.F > 0:
                self.ctx.counters.inc("inbred_move")
            if self.freqs is not None:
                self.ctx.counters.inc("skewed_freq_move")
            if len(set(x.tolist())) < len(x):
                self.ctx.counters.inc("dup_state_move")
        return out

    def record_kernel(self, kind, x, k, a, vec):
        """A few (arguments -> vector) records per run for the compiled-kernel comparison (thorough tier)."""
        if not self.cfg.get("record_kernels") or len(self.ctx.extra) >= 2 or not self.np.all(self.np.isfinite(vec)):
            return
        np = self.np
        reads = np.where(np.isnan(self.reads), None, self.reads).tolist() if len(self.reads) else []
        reads = [[[None if v is None else float(v) for v in row] for row in rd] for rd in reads]
        self.ctx.extra.append({"kind": kind, "genotype": x.tolist(), "k": k, "haplotypes": self.haps.tolist(), "reads": reads,
                               "counts": self.counts.tolist(), "max_allele": int(self.reads.shape[2]), "inbreeding": self.F, "frequencies": None if self.freqs is None else self.freqs.tolist(),
                               "vector": vec.tolist()})

    def w_cached(self, *args, **kwargs):
        a = bind(self.real["cached"], args, kwargs)
        out = self.real["cached"](**a)
        if a["cache"] is not None and not self.in_probe:
            self.seen.add(tuple(sorted(int(v) for v in a["genotype_alleles"])))
        if "cache" in self.checks and not self.in_probe:
            fresh = self.fresh_llk(a["genotype_alleles"])
            if a["cache"] is not None:
                self.ctx.counters.inc("call_cached_calls")
            if not rel_close(float(out), fresh):
                self.viol("cached_value_wrong", "calling log_likelihood_alleles_cached returned %r, recomputed %r" % (float(out), fresh),
                          genotype=a["genotype_alleles"])
        return out

    # -- premise: call-exact's distribution is the reference posterior ------
    def check_exact_premise(self):
        np = self.np
        if self.cfg.get("big"):
            return  # the genotype space is too large to enumerate; covered by the small shapes
        cexact = self.m["cexact"]
        pl, nh = self.cfg["ploidy"], len(self.haps)
        gens, post = ref.exact_call_posterior(self.reads_l, self.counts_l, self.haps_l, pl, self.fl, self.F)
        ll = cexact.genotype_likelihoods(self.reads, pl, self.haps, read_counts=self.counts)
        ex = cexact.genotype_posteriors(np.asarray(ll, dtype=np.float64), pl, nh, self.F, self.freqs)
        tol = 1e-9 + 8 * 6e-8 * max(1.0, float(np.max(np.abs(ll))))
        dev = max(abs(float(ex[i]) - post[i]) for i in range(len(post)))
        self.ctx.counters.inc("exact_premise_checked")
        if not (dev <= tol):
            self.viol("exact_posterior_mismatch", "call-exact's genotype posterior deviates from the reference posterior by %.3g (tol %.3g)" % (dev, tol),
                      ploidy=pl, n_haps=nh, inbreeding=self.F, freqs=self.fl)


def shrink_candidates(cfg, violation):
    out = []

    def mod(**kw):
        c = dict(cfg)
        c.update(kw)
        if c != cfg:
            out.append(c)

    step = (violation or {}).get("step")
    if isinstance(step, int) and step + 1 < cfg["steps"]:
        mod(steps=step + 1)
    if cfg["chains"] > 1:
        mod(chains=1)
    if cfg.get("adv_rate", 0) > 0:
        mod(adv_rate=0.0)
    if cfg["n_reads"] > 1:
        mod(n_reads=max(1, cfg["n_reads"] // 2))
    if cfg["counts"] != "ones":
        mod(counts="ones")
    if cfg["gap_rate"] > 0:
        mod(gap_rate=0.0)
    if cfg["n_haps"] > 2:
        mod(n_haps=cfg["n_haps"] - 1)
    if len(cfg["n_alleles"]) > 1:
        mod(n_alleles=cfg["n_alleles"][:-1])
    if cfg["ploidy"] > 2:
        mod(ploidy=cfg["ploidy"] - 1)
    if cfg["inbreeding"] > 0:
        mod(inbreeding=0.0)
    if cfg["freqs"] != "flat":
        mod(freqs="flat")
    if cfg.get("unsorted_start"):
        mod(unsorted_start=False)
    if cfg["steps"] > 1:
        mod(steps=cfg["steps"] - 1)
    return out
