"""Core of the deterministic simulator: seeds, choice tape, event log,
violations, replay files, minimiser, batch driver and evidence writer.

One integer (VERIF_SEED) decides everything.  Per run:

    run_seed = H(VERIF_SEED, property id, tier, run index)
    config   = scenario.gen_config(Random(H(run_seed, "config")), tier)   # JSON-able
    tape     = Tape(Random(H(run_seed, "tape")))                          # every draw in the run

A replay file stores (config, tape values); replaying it is a pure function
of that file and the code under test.
"""
import hashlib
import json
import math
import os
import random
import sys
import time
import traceback

VERIF_DIR = os.path.dirname(os.path.dirname(os.path.abspath(__file__)))
REPO = os.environ.get("VERIF_REPO", "/repo")
DEFAULT_SEED = 20261004

EXIT_OK = 0
EXIT_VIOLATION = 1
EXIT_HARNESS = 2


def H(*parts):
    """Stable 63-bit hash of a tuple of simple values."""
    s = json.dumps(parts, sort_keys=True, default=str).encode()
    return int.from_bytes(hashlib.sha256(s).digest()[:8], "big") >> 1


def hkey(*parts):
    """64-bit key used for distinct-counting."""
    s = repr(parts).encode()
    return int.from_bytes(hashlib.blake2b(s, digest_size=8).digest(), "big")


class Violation(Exception):
    """A property violation observed by an oracle."""

    def __init__(self, cls, message, step=None, detail=None):
        super().__init__("%s: %s" % (cls, message))
        self.cls = cls
        self.message = message
        self.step = step
        self.detail = detail or {}

    def as_dict(self):
        return {
            "class": self.cls,
            "message": self.message,
            "step": self.step,
            "detail": _jsonable(self.detail),
        }


class HarnessError(Exception):
    """Something went wrong in the machinery (never reported as a violation)."""


def _jsonable(x):
    try:
        import numpy as np
    except Exception:  # pragma: no cover
        np = None
    if isinstance(x, dict):
        return {str(k): _jsonable(v) for k, v in x.items()}
    if isinstance(x, (list, tuple, set, frozenset)):
        return [_jsonable(v) for v in x]
    if np is not None:
        if isinstance(x, np.ndarray):
            return _jsonable(x.tolist())
        if isinstance(x, np.generic):
            return _jsonable(x.item())
    if isinstance(x, float):
        if math.isnan(x):
            return "nan"
        if math.isinf(x):
            return "inf" if x > 0 else "-inf"
        return x
    if isinstance(x, (int, str, bool)) or x is None:
        return x
    if isinstance(x, bytes):
        return x.hex()
    return repr(x)


class Tape:
    """The choice tape.  Record mode draws from a PRNG and appends; replay
    mode reads the stored list (clamped to the legal range; exhausted => the
    smallest legal value)."""

    def __init__(self, rng=None, values=None):
        self.rng = rng
        self.replay = values is not None
        self.values = list(values) if values is not None else []
        self.pos = 0

    def _next(self, lo, hi, is_float):
        if self.replay:
            if self.pos < len(self.values):
                v = self.values[self.pos]
            else:
                v = lo
                self.values.append(v)
            self.pos += 1
            if is_float:
                v = float(v)
                if not (lo <= v < hi):
                    v = lo
            else:
                v = int(v)
                if v < lo:
                    v = lo
                if v > hi:
                    v = hi
            return v
        if is_float:
            v = self.rng.random()
        else:
            v = self.rng.randint(lo, hi)
        self.values.append(v)
        self.pos += 1
        return v

    def int(self, lo, hi):
        """Integer in [lo, hi] inclusive."""
        if hi < lo:
            raise HarnessError("tape.int with empty range %r..%r" % (lo, hi))
        return self._next(lo, hi, False)

    def unit(self):
        """Float in [0, 1)."""
        return self._next(0.0, 1.0, True)

    def chance(self, p):
        return self.unit() < p

    def choice(self, seq):
        return seq[self.int(0, len(seq) - 1)]

    def used(self):
        return self.values[: self.pos]


class EventLog:
    """The simulator's own history.  Hash is updated incrementally; logging
    never draws from the tape and never reads a clock."""

    def __init__(self, keep=0):
        self._h = hashlib.sha256()
        self.n = 0
        self.keep = keep
        self.head = []

    def add(self, *event):
        ev = _jsonable(event)
        self._h.update(json.dumps(ev, sort_keys=True).encode())
        self.n += 1
        if len(self.head) < self.keep:
            self.head.append(ev)

    def sha(self):
        return self._h.hexdigest()


class Counters(dict):
    def inc(self, key, n=1):
        self[key] = self.get(key, 0) + n


# ---------------------------------------------------------------------------
# running one simulated run
# ---------------------------------------------------------------------------


def run_seed_for(base_seed, prop, tier, index):
    return H(int(base_seed), prop, tier, int(index))


def execute_run(scn, config, tape_values=None, run_seed=None, keep_events=0):
    """Execute one simulated run.  Returns a result dict (never raises for a
    Violation; harness errors propagate as HarnessError)."""
    if tape_values is None:
        tape = Tape(rng=random.Random(H(run_seed, "tape")))
    else:
        tape = Tape(values=tape_values)
    log = EventLog(keep=keep_events)
    counters = Counters()
    keys = set()
    ctx = RunContext(config, tape, log, counters, keys)
    ctx.prop = getattr(scn, "ID", None)
    ctx.findings = _FINDINGS_CACHE.setdefault("f", load_known_findings())
    violation = None
    t0 = time.time()
    try:
        scn.execute(ctx)
    except Violation as v:
        violation = v.as_dict()
    except HarnessError:
        raise
    except RecursionError:
        raise
    except Exception as e:  # classify: SUT exception or harness error
        tb = traceback.extract_tb(e.__traceback__)
        inner = tb[-1].filename if tb else ""
        in_sut = any(
            os.path.abspath(f.filename).startswith(os.path.abspath(REPO) + os.sep)
            for f in tb
        )
        inner_harness = os.path.abspath(inner).startswith(VERIF_DIR + os.sep)
        if in_sut and not inner_harness and scn.sut_exception_is_violation(e, ctx):
            violation = Violation(
                "sut_exception",
                "%s: %s" % (type(e).__name__, str(e)[:300]),
                step=ctx.step,
                detail={"traceback": traceback.format_exc()[-1500:]},
            ).as_dict()
        else:
            raise HarnessError(
                "unexpected %s in harness: %s\n%s"
                % (type(e).__name__, e, traceback.format_exc())
            )
    return {
        "config": config,
        "tape": tape.used() if violation is not None else None,
        "tape_len": tape.pos,
        "violation": violation,
        "counters": dict(counters),
        "keys": sorted(keys),
        "sha": log.sha(),
        "events": log.n,
        "head": log.head,
        "steps": ctx.step,
        "known": dict(ctx.known),
        "extra": _jsonable(ctx.extra),
        "wall": time.time() - t0,
    }


_FINDINGS_CACHE = {}


def execute_run_isolated(scn, config, tape_values=None, run_seed=None, keep_events=0):
    """Execute the run in a forked child so that process-global state a run leaves behind (module
    globals, RNG state, dispatcher caches) can never leak into the next run: a run's result depends
    only on (config, tape) and the state of the freshly prepared parent."""
    import pickle
    r, w = os.pipe()
    pid = os.fork()
    if pid == 0:
        code = 0
        try:
            os.close(r)
            try:
                # a runaway allocation in the code under test must surface as MemoryError inside the run
                # (and be judged by the oracles), not as the kernel killing this child
                try:
                    import resource
                    lim = int(os.environ.get("VERIF_CHILD_AS_LIMIT_GB", "16")) * (1 << 30)
                    resource.setrlimit(resource.RLIMIT_AS, (lim, lim))
                except Exception:
                    pass
                if hasattr(scn, "child_init"):
                    scn.child_init(config)
                res = ("ok", execute_run(scn, config, tape_values=tape_values, run_seed=run_seed, keep_events=keep_events))
            except HarnessError as e:
                res = ("harness", str(e))
            except BaseException as e:  # noqa
                res = ("harness", "%s: %s\n%s" % (type(e).__name__, e, traceback.format_exc()))
            with os.fdopen(w, "wb") as f:
                pickle.dump(_jsonable_result(res), f)
        except BaseException:
            code = 3
        finally:
            os._exit(code)
    os.close(w)
    with os.fdopen(r, "rb") as f:
        data = f.read()
    _, status = os.waitpid(pid, 0)
    if not data:
        raise HarnessError("isolated run died (status %r)" % status)
    kind, payload = pickle.loads(data)
    if kind != "ok":
        raise HarnessError(payload)
    return payload


def _jsonable_result(res):
    kind, payload = res
    if kind == "ok":
        payload = dict(payload)
        payload["violation"] = _jsonable(payload["violation"])
        payload["head"] = _jsonable(payload["head"])
    return (kind, payload)


def run_for(scn):
    return execute_run_isolated if getattr(scn, "ISOLATE", False) else execute_run


class RunContext:
    def __init__(self, config, tape, log, counters, keys):
        self.config = config
        self.tape = tape
        self.log = log
        self.counters = counters
        self.keys = keys
        self.step = 0
        self.known = {}  # id of known finding -> times matched in this run
        self.extra = []  # small JSON-able records handed to the scenario's post_batch (thorough tier)
        self.prop = None
        self.findings = []

    def key(self, *parts):
        self.keys.add(hkey(*parts))

    def violate(self, cls, message, detail=None):
        """Raise a Violation unless it is a listed (open) known finding, in which case the
        finding is recorded and the run goes on, so that later checks are not masked."""
        v = Violation(cls, message, step=self.step, detail=detail)
        kf = match_known(self.prop, v.as_dict(), self.findings)
        if kf is None:
            raise v
        self.known[kf["id"]] = self.known.get(kf["id"], 0) + 1


# ---------------------------------------------------------------------------
# known findings
# ---------------------------------------------------------------------------


def load_known_findings():
    path = os.path.join(VERIF_DIR, "known_findings.json")
    if not os.path.exists(path):
        return []
    with open(path) as f:
        data = json.load(f)
    return [e for e in data.get("findings", []) if e.get("status") == "open"]


def match_known(prop, violation, findings):
    """A finding matches when property and class agree and every key of its
    'signature' equals the corresponding key of the violation detail."""
    for f in findings:
        if f.get("property") != prop or f.get("class") != violation["class"]:
            continue
        sig = f.get("signature", {})
        det = violation.get("detail", {})
        if all(det.get(k) == v for k, v in sig.items()):
            return f
    return None


# ---------------------------------------------------------------------------
# replay files and minimisation
# ---------------------------------------------------------------------------


def write_replay(prop, scn_name, run_seed, result, path):
    os.makedirs(os.path.dirname(path), exist_ok=True)
    doc = {
        "property": prop,
        "scenario": scn_name,
        "run_seed": run_seed,
        "config": result["config"],
        "tape": result["tape"],
        "violation": result["violation"],
        "event_log_sha": result["sha"],
    }
    with open(path, "w") as f:
        json.dump(_jsonable(doc), f, indent=1)
    return path


def same_violation(a, b):
    return a is not None and b is not None and a["class"] == b["class"]


def minimise(scn, result, budget=80, wall=120.0):
    """Greedy tape/config minimiser: keeps a change only if the same
    violation class persists."""
    t0 = time.time()
    best = result
    target = result["violation"]
    tries = 0

    def attempt(config, tape):
        nonlocal tries
        tries += 1
        try:
            r = run_for(scn)(scn, config, tape_values=tape)
        except HarnessError:
            return None
        if same_violation(r["violation"], target):
            return r
        return None

    # 1. scenario-specific config shrinks (incl. truncation at the violating step)
    improved = True
    while improved and tries < budget and time.time() - t0 < wall:
        improved = False
        for cand in scn.shrink_candidates(best["config"], best["violation"]):
            if tries >= budget or time.time() - t0 > wall:
                break
            r = attempt(cand, best["tape"])
            if r is not None:
                best = r
                improved = True
                break
    # 2. truncate the tape to what was used, then zero entries from the end
    tape = list(best["tape"])
    i = len(tape) - 1
    chunk = max(1, len(tape) // 8)
    while i >= 0 and tries < budget and time.time() - t0 < wall:
        lo = max(0, i - chunk + 1)
        cand = list(tape)
        changed = False
        for k in range(lo, i + 1):
            z = 0.0 if isinstance(cand[k], float) else 0
            if cand[k] != z:
                cand[k] = z
                changed = True
        if changed:
            r = attempt(best["config"], cand)
            if r is not None:
                best = r
                tape = list(best["tape"])
                i = min(i, len(tape) - 1)
        i = lo - 1
    best["minimise_tries"] = tries
    return best
