"""Independent reference model, written from MCHap's documentation (not from
its code): mixture read likelihood, multinomial / Dirichlet-multinomial
genotype priors, permutation counts, exact posteriors by enumeration.

Plain Python + math only, so that nothing is shared with the code under test.
"""
import itertools
import math
from collections import Counter

NEG_INF = float("-inf")


def log_sum_exp(xs):
    xs = list(xs)
    m = max(xs)
    if m == NEG_INF:
        return NEG_INF
    return m + math.log(sum(math.exp(x - m) for x in xs))


def normalise_logs(xs):
    z = log_sum_exp(xs)
    return [math.exp(x - z) if z > NEG_INF else float("nan") for x in xs]


def read_llk(reads, counts, haplotypes):
    """sum_r count_r * log( mean_h prod_j P(read_r base j | allele h_j) ),
    missing (NaN) cells contribute a factor of one.

    reads      : nested [n_reads][n_pos][n_alleles] floats (NaN = gap)
    counts     : [n_reads] ints or None
    haplotypes : [ploidy][n_pos] ints
    """
    n = len(haplotypes)
    total = 0.0
    for r in range(len(reads)):
        c = 1 if counts is None else counts[r]
        if c == 0:
            continue
        rd = reads[r]
        pr = 0.0
        for hap in haplotypes:
            p = 1.0
            for j in range(len(hap)):
                v = rd[j][hap[j]]
                if v == v:  # not NaN
                    p *= v
            pr += p / n
        if pr <= 0.0:
            return NEG_INF
        total += c * math.log(pr)
    return total


def hap_key(g):
    """Canonical (order-free) key of a genotype given as rows of ints."""
    return tuple(sorted(tuple(int(a) for a in row) for row in g))


def allele_key(g):
    return tuple(sorted(int(a) for a in g))


def ln_nperm_counts(counts):
    n = sum(counts)
    return math.lgamma(n + 1) - sum(math.lgamma(c + 1) for c in counts)


def ln_nperm_haps(g):
    return ln_nperm_counts(list(Counter(hap_key(g)).values()))


def ln_nperm_alleles(g):
    return ln_nperm_counts(list(Counter(int(a) for a in g).values()))


def lprior_flat_haplotypes(dosages, log_n_haps, inbreeding):
    """Prior over unordered genotypes when all exp(log_n_haps) haplotypes are
    equally frequent: multinomial (F = 0) or Dirichlet-multinomial with
    per-haplotype dispersion (1/u)(1-F)/F."""
    n = sum(dosages)
    if inbreeding == 0:
        return ln_nperm_counts(dosages) - n * log_n_haps
    u = math.exp(log_n_haps)
    a = (1.0 - inbreeding) / inbreeding / u
    A = a * u
    out = math.lgamma(n + 1) + math.lgamma(A) - math.lgamma(n + A)
    for d in dosages:
        out += math.lgamma(d + a) - math.lgamma(d + 1) - math.lgamma(a)
    return out


def lprior_assemble(g, log_n_haps, inbreeding):
    return lprior_flat_haplotypes(
        list(Counter(hap_key(g)).values()), log_n_haps, inbreeding
    )


def lprior_call(alleles, freqs, inbreeding):
    """Prior over unordered genotypes of known haplotypes with frequencies
    `freqs` (sum to 1): multinomial or Dirichlet-multinomial with dispersion
    freq * (1-F)/F."""
    cnt = Counter(int(a) for a in alleles)
    n = sum(cnt.values())
    if inbreeding == 0:
        out = ln_nperm_counts(list(cnt.values()))
        for a, c in cnt.items():
            if freqs[a] <= 0:
                return NEG_INF
            out += c * math.log(freqs[a])
        return out
    al = [f * (1.0 - inbreeding) / inbreeding for f in freqs]
    A = sum(al)
    out = math.lgamma(n + 1) + math.lgamma(A) - math.lgamma(n + A)
    for a, c in cnt.items():
        if al[a] <= 0:
            return NEG_INF
        out += math.lgamma(c + al[a]) - math.lgamma(c + 1) - math.lgamma(al[a])
    return out


def all_genotypes(n_alleles, ploidy):
    return list(itertools.combinations_with_replacement(range(n_alleles), ploidy))


def vcf_order(genotypes):
    """Indices sorting sorted-tuple genotypes into VCF G-field order."""
    return sorted(range(len(genotypes)), key=lambda i: tuple(reversed(genotypes[i])))


def exact_call_posterior(reads, counts, haplotypes, ploidy, freqs, inbreeding):
    """Exact posterior over all unordered genotypes (VCF order)."""
    gens = all_genotypes(len(haplotypes), ploidy)
    order = vcf_order(gens)
    gens = [gens[i] for i in order]
    lj = [
        read_llk(reads, counts, [haplotypes[a] for a in g])
        + lprior_call(g, freqs, inbreeding)
        for g in gens
    ]
    return gens, normalise_logs(lj)


def snv_homozygosity(reads_col, counts, n_alleles, ploidy, inbreeding, with_margin=False):
    """Single-SNV posterior probability of each homozygous genotype.
    reads_col: [n_reads][max_allele] (NaN = gap).  with_margin: also return log(second largest joint /
    largest joint) over all genotypes (how far the posterior is from being decided)."""
    gens = all_genotypes(n_alleles, ploidy)
    freqs = [1.0 / n_alleles] * n_alleles
    haps = [[a] for a in range(n_alleles)]
    rd = [[row] for row in reads_col]
    lj = [
        read_llk(rd, counts, [haps[a] for a in g]) + lprior_call(g, freqs, inbreeding)
        for g in gens
    ]
    post = normalise_logs(lj)
    out = [0.0] * n_alleles
    for g, p in zip(gens, post):
        if len(set(g)) == 1:
            out[g[0]] = p
    if with_margin:
        srt = sorted(lj, reverse=True)
        margin = (srt[1] - srt[0]) if len(srt) > 1 else NEG_INF
        return out, margin
    return out
