"""Assemble-sampler workload under engine K.

Runs the real `DenovoMCMC.fit` / `_denovo_assembler` with every random draw
scheduled by the tape, observes every elementary move at the step seams and
feeds the observations to the enabled checkers:

  db     (C01)  detailed balance of every executed move against its reverse,
                multiset-only dependence, exchange identity, orchestration
  cache  (C09)  cached wrappers vs repo's uncached likelihood, carried llk,
                arraymap vs dict model
  sweep  (C15)  exactly-once accounting of (h, j), interval partitions
  history       (C14, C09-5) the simulator's own log of states
"""
import math
import random as _random

from . import refmodel as ref
from .core import HarnessError, Violation
from .engine_k import Seams, SimRandom, bind, bootstrap, rel_close

TOL_LOG = 1e-8
UNDERFLOW = -690.0
TINY = 1e-300  # below this a double is (nearly) denormal: treated like an underflowed zero


# ---------------------------------------------------------------------------
# instance generation
# ---------------------------------------------------------------------------


def gen_config(rng, tier, flavor="db"):
    """Swarm-style instance + perturbation configuration (JSON-able)."""
    big = tier == "thorough"
    ploidy = rng.choice([2, 2, 3, 4, 4, 5, 6] if flavor == "db" else [2, 3, 4, 4, 6])
    n_pos = rng.choice([1, 2, 2, 3, 3, 4] + ([5] if big else []))
    n_alleles = [rng.choice([2, 2, 2, 3, 4]) for _ in range(n_pos)]
    n_temps = rng.choice([1, 1, 2, 2, 3])
    # 0.0 is a legal rung for the API (the sampler asserts temperatures[0] >= 0): a chain that ignores the data
    temps = sorted({rng.choice([0.0, 0.01, 0.05, 0.1, 0.25, 0.5, 0.75, 0.9]) for _ in range(n_temps - 1)})
    temps = temps + [1.0]
    cache_mode = rng.choice(["default", "off", "always", "tiny", "tiny"])
    if cache_mode == "tiny":
        init = rng.choice([2, 3, 4, 8])
        cache = {"mode": "tiny", "initial_size": init, "max_size": init * rng.choice([1, 2, 4, 8])}
    else:
        cache = {"mode": cache_mode, "initial_size": 64, "max_size": 2 ** 16}
    cfg = {
        "workload": "assemble",
        "ploidy": ploidy,
        "n_alleles": n_alleles,
        "n_reads": rng.choice([0, 1, 2, 3, 5, 8]),
        "data_seed": rng.randrange(2 ** 31),
        "gap_rate": rng.choice([0.0, 0.2, 0.5]),
        "counts": rng.choice(["none", "ints", "ints", "big"] if flavor in ("db", "cache") else ["none", "ints"]),
        "err_style": rng.choice(["norm", "third"]),
        "inbreeding": rng.choice([0.0, 0.0, 0.05, 0.3, 0.9, 0.99, 0.001, 0.0005]),
        "temperatures": temps,
        "p_recomb": rng.choice([0.0, 0.5, 1.0]),
        "p_partial": rng.choice([0.0, 0.5, 1.0]),
        "p_dosage": rng.choice([0.0, 0.5, 1.0, 1.0]),
        "steps": rng.randint(2, 6 if not big else 10),
        "chains": rng.choice([1, 1, 2]),
        "initial": rng.choice(["none", "dup_all", "dup_pairs", "random"]),
        "cache": cache,
        "adv_rate": rng.choice([0.0, 0.3, 1.0]),
        "row_permute": rng.random() < 0.4,
        "fix_homozygous": 2.0,
        "n_intervals": rng.choice([None, None, 1, 2]),
        "entry": rng.choice(["fit", "direct"]),
        "heated_trace": rng.random() < 0.5,
        "refit": rng.random() < 0.2,
        "ladder_reversed": rng.random() < 0.3,
    }
    if flavor == "db" and rng.random() < 0.02:
        # tiny shapes for the exact one-sweep kernel (see check_mutation_sweep_kernel)
        cfg["ploidy"] = 2
        cfg["n_alleles"] = rng.choice([[2], [2, 2], [3], [2, 2]])
        cfg["n_reads"] = rng.choice([0, 1, 2, 3])
        cfg["temperatures"] = [rng.choice([1.0, 1.0, 0.5, 0.1])]
        cfg["sweep_kernel"] = True
        cfg["long_locus"] = False
        cfg["alpha_beta"] = [1.0, 3.0]
        cfg["n_intervals"] = None
        cfg["temperatures"] = sorted(set(cfg["temperatures"] + [1.0]))
        return cfg
    if flavor == "db" and rng.random() < 0.02:
        # tiny shapes for the exact one-sweep kernel of the STRUCTURAL compound step (see check_structural_sweep_kernel)
        cfg["ploidy"] = rng.choice([2, 3, 3])
        cfg["n_alleles"] = rng.choice([[2, 2], [2, 2, 2], [2, 2, 2], [2, 3]])
        n = len(cfg["n_alleles"])
        cfg["sweep_intervals"] = rng.choice([[[0, 1], [1, 2]]] if n == 2 else [[[0, 1], [1, 3]], [[0, 2], [2, 3]], [[0, 1], [1, 2], [2, 3]]])
        cfg["sweep_step_type"] = rng.choice([0, 1])
        cfg["n_reads"] = rng.choice([0, 1, 2, 3])
        cfg["temperatures"] = sorted(set([rng.choice([1.0, 0.5, 0.5, 0.2]), 1.0]))
        cfg["struct_sweep_kernel"] = True
        cfg["long_locus"] = False
        cfg["alpha_beta"] = [1.0, 3.0]
        cfg["n_intervals"] = None
        return cfg
    cfg["alpha_beta"] = rng.choice([[1.0, 3.0], [1.0, 3.0], [1.0, 1.0], [2.0, 2.0], [0.5, 0.5]])
    if flavor == "db" and rng.random() < 0.06:
        # rare shapes: haploid / octoploid, longer loci (cheap settings otherwise)
        cfg["ploidy"] = rng.choice([1, 7, 8])
        cfg["n_alleles"] = [rng.choice([2, 2, 3]) for _ in range(rng.choice([1, 2, 6, 8]))]
        cfg["n_reads"] = rng.choice([1, 2, 3])
        cfg["steps"] = 2
        cfg["chains"] = 1
        if cfg["ploidy"] == 1 and cfg["initial"] == "dup_pairs":
            cfg["initial"] = "random"
        n_pos = len(cfg["n_alleles"])
    if flavor in ("db", "cache") and rng.random() < (0.02 if flavor == "db" else 0.008):
        # rare long loci (beyond int8 / packed-key / table sizes): diploid, one or two reads, one iteration
        cfg["ploidy"] = rng.choice([2, 3, 3, 4])
        cfg["n_alleles"] = [rng.choice([2, 2, 2, 3]) for _ in range(rng.choice([23, 40, 70, 130, 140]))]
        cfg["n_reads"] = rng.choice([1, 2])
        cfg["steps"] = 1
        cfg["chains"] = 1
        cfg["temperatures"] = cfg["temperatures"][-2:]
        cfg["long_locus"] = True
        # haplotypes that are copies of each other except for a few leading / trailing sites: whatever summarises a long
        # haplotype segment (a packed key, a hash, a truncated comparison) must still tell them apart
        cfg["initial"] = rng.choice(["near_dup_head", "near_dup_tail", "near_dup_head", "dup_all", "random"])
        # reads that pin the body of the haplotypes to two truths and say nothing about a few leading (trailing) sites: the
        # mutation sweep then keeps rows that differ ONLY there, so the structural moves meet near-duplicates in every iteration
        cfg["read_style"] = rng.choice(["plain", "two_truths_gap_head", "two_truths_gap_head", "two_truths_gap_tail"]) if flavor == "db" else "plain"
        if cfg["read_style"] != "plain":
            cfg["ploidy"] = rng.choice([3, 4, 4])
            cfg["initial"] = "truth_rows"
            cfg["n_reads"] = 4
            cfg["counts"] = "none"
            cfg["steps"] = 3
            cfg["p_recomb"] = cfg["p_partial"] = cfg["p_dosage"] = 1.0
            cfg["n_intervals"] = rng.choice([None, 2, 2, 3, 3])
        n_pos = len(cfg["n_alleles"])
    if flavor in ("db", "cache") and rng.random() < 0.012:
        # a read whose probability under every haplotype is SUB-NORMAL (1e-310: between the smallest double and the
        # smallest normal one), everything else ordinary.  The unchanged tree treats such a value like any other; a guard
        # or clip in one of the two likelihood functions (seeded change C09-e1) makes them disagree here, without ever
        # entering the -inf / NaN regime of observation O9
        cfg["ploidy"] = rng.choice([2, 3, 4])
        cfg["n_alleles"] = [2] * 36
        cfg["read_style"] = "denormal_outlier"
        cfg["initial"] = "truth_rows"
        cfg["n_reads"] = 5
        cfg["counts"] = "deep_body"
        cfg["steps"] = 3
        cfg["chains"] = 1
        cfg["temperatures"] = cfg["temperatures"][-2:]
        cfg["p_recomb"] = cfg["p_partial"] = cfg["p_dosage"] = 1.0
        cfg["n_intervals"] = rng.choice([None, 2, 3])
        cfg["long_locus"] = True
        cfg["refit"] = False
        n_pos = 36
    if cfg["n_intervals"] is not None:
        cfg["n_intervals"] = max(1, min(cfg["n_intervals"], n_pos))
    if cfg["entry"] == "direct" and cfg["n_reads"] == 0:
        cfg["n_reads"] = 1
    return cfg


def long_truths(cfg):
    """Two haplotypes differing at a few sites away from the uninformative end, and the uninformative sites."""
    rng = _random.Random(cfg["data_seed"] ^ 0x7777)
    n_alleles = cfg["n_alleles"]
    n = len(n_alleles)
    a = [rng.randrange(x) for x in n_alleles]
    b = list(a)
    if cfg["read_style"] == "denormal_outlier":
        # the truths agree on the first n - 5 ("deep") sites and differ at three of the last five; no uninformative sites
        for j in rng.sample(list(range(n - 5, n)), 3):
            b[j] = (b[j] + 1) % n_alleles[j]
        return a, b, []
    head = cfg["read_style"] == "two_truths_gap_head"
    gaps = list(range(3)) if head else list(range(n - 3, n))
    region = range(n - 8, n) if head else range(0, 8)
    for j in rng.sample(list(region), 3):
        b[j] = (b[j] + 1) % n_alleles[j]
    return a, b, gaps


def gen_reads(cfg):
    """Read tensor (n_reads, n_pos, max_allele), counts; from data_seed."""
    np = bootstrap()["np"]
    rng = _random.Random(cfg["data_seed"])
    n_alleles = cfg["n_alleles"]
    n_pos = len(n_alleles)
    amax = max(n_alleles)
    n_reads = cfg["n_reads"]
    reads = np.zeros((n_reads, n_pos, amax), dtype=np.float64)
    if cfg.get("read_style", "plain") == "denormal_outlier" and n_pos >= 12:
        a, b, _ = long_truths(cfg)
        for r in range(n_reads - 1):
            hap = a if r % 2 == 0 else b
            for j in range(n_pos):
                reads[r, j, :2] = 0.01
                reads[r, j, hap[j]] = 0.99
        # the outlier: covers the 31 deep sites only and contradicts the (common) truth there with 1e-10 each -> 1e-310
        r = n_reads - 1
        reads[r, :, :] = np.nan
        for j in range(31):
            reads[r, j, :2] = 1.0 - 1e-10
            reads[r, j, a[j]] = 1e-10
        counts = np.array([40] * (n_reads - 1) + [1], dtype=np.int64)
        return reads, counts
    if cfg.get("read_style", "plain") != "plain" and n_pos >= 12:
        a, b, gaps = long_truths(cfg)
        for r in range(n_reads):
            hap = a if r % 2 == 0 else b
            for j in range(n_pos):
                if j in gaps:
                    reads[r, j, :] = np.nan
                    continue
                reads[r, j, : n_alleles[j]] = 0.01 / max(1, n_alleles[j] - 1)
                reads[r, j, hap[j]] = 0.99
        return reads, None
    truth = [[rng.randrange(n_alleles[j]) for j in range(n_pos)] for _ in range(max(1, cfg["ploidy"] // 2 + 1))]
    for r in range(n_reads):
        hap = rng.choice(truth)
        for j in range(n_pos):
            if rng.random() < cfg["gap_rate"]:
                reads[r, j, :] = np.nan
                continue
            a = hap[j] if rng.random() < 0.8 else rng.randrange(n_alleles[j])
            p = rng.choice([0.6, 0.9, 0.99, 0.999])
            if cfg["err_style"] == "third":
                reads[r, j, : n_alleles[j]] = (1 - p) / 3
            else:
                reads[r, j, : n_alleles[j]] = (1 - p) / (n_alleles[j] - 1)
            reads[r, j, a] = p
    # n_reads == 0: compiled MCHap reads read_counts[0] out of bounds and multiplies
    # it with log(1) = 0 (benign); interpreted NumPy raises IndexError.  Not modelled.
    if cfg["counts"] == "big" and n_reads > 0:
        # deep, nearly error-free data: likelihood ratios underflow double precision
        counts = np.array([rng.choice([1, 20, 100, 400]) for _ in range(n_reads)], dtype=np.int64)
    elif cfg["counts"] == "ints" and n_reads > 0:
        counts = np.array([rng.choice([1, 1, 2, 3, 5]) for _ in range(n_reads)], dtype=np.int64)
    else:
        counts = None
    return reads, counts


def gen_initial(cfg, rng_seed):
    np = bootstrap()["np"]
    mode = cfg["initial"]
    if mode == "none":
        return None
    rng = _random.Random(rng_seed)
    n_alleles = cfg["n_alleles"]
    out = []
    for _ in range(cfg["chains"]):
        hap = lambda: [rng.randrange(a) for a in n_alleles]
        if mode == "dup_all":
            h = hap()
            g = [list(h) for _ in range(cfg["ploidy"])]
        elif mode == "dup_pairs":
            base = [hap() for _ in range(max(1, cfg["ploidy"] // 2))]
            g = [list(base[i % len(base)]) for i in range(cfg["ploidy"])]
        elif mode == "truth_rows" and len(n_alleles) < 12:
            g = [hap() for _ in range(cfg["ploidy"])]
        elif mode == "truth_rows":
            a, b, gaps = long_truths(cfg)
            g = []
            for i in range(cfg["ploidy"]):
                row = list(a if i % 2 == 0 else b)
                for j in gaps:
                    row[j] = rng.randrange(n_alleles[j])
                g.append(row)
            rng.shuffle(g)
        elif mode in ("near_dup_head", "near_dup_tail"):
            h = hap()
            n = len(n_alleles)

            def variant(row):
                row = list(row)
                for _k in range(rng.choice([1, 1, 2])):
                    j = rng.randrange(min(3, n)) if mode == "near_dup_head" else n - 1 - rng.randrange(min(3, n))
                    if n_alleles[j] > 1:
                        row[j] = (row[j] + 1 + rng.randrange(n_alleles[j] - 1)) % n_alleles[j]
                return row

            g = [list(h)]
            if cfg["ploidy"] > 1:
                g.append(variant(h))
            while len(g) < cfg["ploidy"]:
                # further rows: unrelated haplotypes, exact copies, or further near-copies
                k = rng.randrange(4)
                g.append(hap() if k < 2 else (list(rng.choice(g)) if k == 2 else variant(h)))
            rng.shuffle(g)
        else:
            g = [hap() for _ in range(cfg["ploidy"])]
        out.append(np.array(g, dtype=np.int8))
    return out


# ---------------------------------------------------------------------------
# the simulated run
# ---------------------------------------------------------------------------


class AssembleSim:
    def __init__(self, ctx, cfg, checks=("db",), probe_budget=None):
        self.ctx = ctx
        self.cfg = cfg
        self.checks = set(checks)
        self.m = bootstrap()
        self.np = self.m["np"]
        self.reads, self.counts = gen_reads(cfg)
        # python-list copies for the reference model (for the mock NaN read too)
        self.rng = SimRandom(ctx, adv_rate=cfg.get("adv_rate", 0.0))
        self.history = []  # (chain, iteration, [state per temp], [llk per temp])
        self.traj = []  # (kind, state bytes, llk) for trajectory invariance
        self.sweeps = []
        self.breaks = []
        self.cache_model = None
        self.cache_len = None
        self.in_probe = 0
        self.inv = None  # current _denovo_assembler invocation
        self.chain_no = -1
        self.real = {}
        self.probe_budget = probe_budget
        self.het_cols = None

    # -- helpers ------------------------------------------------------------
    def lists(self, reads, counts):
        return reads.tolist(), (None if counts is None else [int(c) for c in counts])

    def lpost(self, g, inv):
        """Reference log(likelihood * prior) of genotype g (rows)."""
        rows = [[int(a) for a in row] for row in g]
        return ref.read_llk(inv["reads_l"], inv["counts_l"], rows) + ref.lprior_assemble(
            rows, inv["luh"], inv["F"]
        )

    def llk_ref(self, g, inv):
        rows = [[int(a) for a in row] for row in g]
        return ref.read_llk(inv["reads_l"], inv["counts_l"], rows)

    def fresh_llk(self, reads, g, counts):
        return float(self.real["log_likelihood"](reads, g, read_counts=counts))

    def viol(self, cls, msg, **detail):
        raise Violation(cls, msg, step=self.ctx.step, detail=detail)

    # -- seams --------------------------------------------------------------
    def install(self, seams):
        m = self.m
        mutation, structural, tempering = m["mutation"], m["structural"], m["tempering"]
        amcmc, likelihood, arraymap, jitutils = m["amcmc"], m["likelihood"], m["arraymap"], m["jitutils"]
        R = self.real
        R["base_step"] = mutation.base_step
        R["mut_compound"] = mutation.compound_step
        R["interval_step"] = structural.interval_step
        R["struct_compound"] = structural.compound_step
        R["random_breaks"] = structural.random_breaks
        R["chain_swap_step"] = amcmc.chain_swap_step
        R["chain_swap_acceptance"] = tempering.chain_swap_acceptance
        R["denovo"] = amcmc._denovo_assembler
        R["new_cache"] = amcmc.new_log_likelihood_cache
        R["llk_cached"] = mutation.log_likelihood_cached
        R["llk_struct_cached"] = structural.log_likelihood_structural_change_cached
        R["log_likelihood"] = likelihood.log_likelihood
        R["am_get"] = arraymap.get
        R["am_set"] = arraymap.set
        R["am_new"] = arraymap.new
        R["structural_change"] = jitutils.structural_change
        R["seg_labels"] = structural.haplotype_segment_labels
        R["rec_opts"] = structural.recombination_step_options
        R["dos_opts"] = structural.dosage_step_options
        if tempering.chain_swap_step is not amcmc.chain_swap_step:
            raise HarnessError("assemble.mcmc.chain_swap_step is not tempering.chain_swap_step")

        self.rng.install(seams, [mutation, structural, amcmc, jitutils])
        seams.set(mutation, "base_step", self.w_base_step)
        seams.set(mutation, "compound_step", self.w_mut_compound)
        seams.set(structural, "interval_step", self.w_interval_step)
        seams.set(structural, "compound_step", self.w_struct_compound)
        seams.set(structural, "random_breaks", self.w_random_breaks)
        seams.set(amcmc, "chain_swap_step", self.w_chain_swap_step)
        seams.set(tempering, "chain_swap_acceptance", self.w_chain_swap_acceptance)
        seams.set(amcmc, "_denovo_assembler", self.w_denovo)
        seams.set(amcmc, "new_log_likelihood_cache", self.w_new_cache)
        seams.set(mutation, "log_likelihood_cached", self.w_llk_cached)
        seams.set(structural, "log_likelihood_structural_change_cached", self.w_llk_struct_cached)
        seams.set(arraymap, "get", self.w_am_get)
        seams.set(arraymap, "set", self.w_am_set)

    # -- run ----------------------------------------------------------------
    def run(self):
        cfg = self.cfg
        np = self.np
        amcmc = self.m["amcmc"]
        threshold = {"off": -1, "always": 0, "default": 100, "tiny": 0}[cfg["cache"]["mode"]]
        initial = gen_initial(cfg, cfg["data_seed"] ^ 0x5A5A)
        with Seams() as seams:
            self.install(seams)
            if cfg["entry"] == "fit":
                model = amcmc.DenovoMCMC(
                    ploidy=cfg["ploidy"],
                    n_alleles=list(cfg["n_alleles"]),
                    inbreeding=cfg["inbreeding"],
                    steps=cfg["steps"],
                    chains=cfg["chains"],
                    n_intervals=cfg["n_intervals"],
                    alpha=cfg.get("alpha_beta", [1.0, 3.0])[0],
                    beta=cfg.get("alpha_beta", [1.0, 3.0])[1],
                    fix_homozygous=cfg["fix_homozygous"],
                    recombination_step_probability=cfg["p_recomb"],
                    partial_dosage_step_probability=cfg["p_partial"],
                    dosage_step_probability=cfg["p_dosage"],
                    # the ladder may be given in any order (fit sorts it)
                    temperatures=tuple(reversed(cfg["temperatures"])) if cfg.get("ladder_reversed") else tuple(cfg["temperatures"]),
                    random_seed=cfg.get("random_seed", 7),
                    llk_cache_threshold=threshold,
                )
                trace = model.fit(self.reads, read_counts=self.counts, initial=initial)
                self.result = ("fit", trace)
                if cfg.get("refit"):
                    # the same model object fitted again to other reads: nothing may survive from the first fit
                    cfg2 = dict(cfg, data_seed=cfg["data_seed"] + 1)
                    reads2, counts2 = gen_reads(cfg2)
                    self.history_first = list(self.history)
                    del self.history[:]
                    self.chain_no = -1
                    self.reads, self.counts = reads2, counts2
                    trace2 = model.fit(reads2, read_counts=counts2, initial=initial)
                    self.result = ("fit", trace2)
                    self.ctx.counters.inc("refit_same_model")
            else:
                n_pos = len(cfg["n_alleles"])
                if initial is None:
                    g0 = np.array(
                        [[self.ctx.tape.int(0, a - 1) for a in cfg["n_alleles"]] for _ in range(cfg["ploidy"])],
                        dtype=np.int8,
                    )
                else:
                    g0 = initial[0]
                if cfg["n_intervals"] is None:
                    ab = cfg.get("alpha_beta", [1.0, 3.0])
                    break_dist = amcmc._point_beta_probabilities(n_pos, ab[0], ab[1])
                else:
                    break_dist = np.zeros(cfg["n_intervals"], dtype=np.float64)
                    break_dist[-1] = 1
                self.chain_no = -1
                gt, lt = amcmc._denovo_assembler(
                    genotype=g0,
                    inbreeding=cfg["inbreeding"],
                    reads=self.reads,
                    read_counts=self.counts,
                    n_alleles=np.array(cfg["n_alleles"], dtype=np.int8),
                    steps=cfg["steps"],
                    break_dist=break_dist,
                    recombination_step_probability=cfg["p_recomb"],
                    partial_dosage_step_probability=cfg["p_partial"],
                    dosage_step_probability=cfg["p_dosage"],
                    temperatures=np.array(cfg["temperatures"], dtype=np.float64),
                    return_heated_trace=bool(cfg["heated_trace"]),
                    llk_cache_threshold=threshold,
                )
                self.result = ("direct", (gt, lt))
        return self.result

    # -- _denovo_assembler --------------------------------------------------
    def w_denovo(self, **kw):
        np = self.np
        self.chain_no += 1
        temps = [float(t) for t in kw["temperatures"]]
        reads = kw["reads"]
        counts = kw["read_counts"]
        reads_l, counts_l = self.lists(reads, counts)
        n_alleles = [int(a) for a in kw["n_alleles"]]
        inv = {
            "temps": temps,
            "n_temps": len(temps),
            "reads": reads,
            "counts": counts,
            "reads_l": reads_l,
            "counts_l": counts_l,
            "n_alleles": n_alleles,
            "F": float(kw["inbreeding"]),
            "luh": None,
            "mut_calls": 0,
            "t": None,
            "iter": -1,
            "state": [np.array(kw["genotype"]).copy() for _ in temps],
            "llk": [None for _ in temps],
            "snaps": [],
            "steps": int(kw["steps"]),
            "heated": bool(kw["return_heated_trace"]),
            "ploidy": int(kw["genotype"].shape[0]),
            "n_base": int(kw["genotype"].shape[1]),
            "cache_on": False,
        }
        outer = self.inv
        self.inv = inv
        self.cache_model = None
        self.ctx.log.add("denovo_enter", self.chain_no, temps, kw["genotype"])
        try:
            gt, lt = self.real["denovo"](**kw)
        finally:
            self.inv = outer
        self._end_iteration(inv)
        self.ctx.log.add("denovo_exit", self.chain_no, len(inv["snaps"]))
        # orchestration: trace vs the simulator's own event log
        if len(inv["snaps"]) != inv["steps"]:
            self.viol("orchestration", "iterations observed %d != steps %d" % (len(inv["snaps"]), inv["steps"]))
        rows = range(inv["n_temps"]) if inv["heated"] else [inv["n_temps"] - 1]
        for i, (states, llks) in enumerate(inv["snaps"]):
            for k, t in enumerate(rows):
                if not np.array_equal(np.asarray(gt[k, i]), states[t]):
                    self.viol("trace_state_mismatch",
                              "trace[%d,%d] is not the state chain t=%d held at the end of iteration %d" % (k, i, t, i),
                              trace=gt[k, i], expected=states[t], heated=inv["heated"])
                fresh = self.fresh_llk(reads, states[t], counts)
                if not rel_close(float(lt[k, i]), fresh):
                    self.viol("trace_llk_mismatch",
                              "llk trace[%d,%d]=%r but recomputed likelihood of the recorded state is %r" % (k, i, float(lt[k, i]), fresh),
                              state=states[t])
        self.history.append((self.chain_no, inv["snaps"], inv))
        return gt, lt

    def _end_iteration(self, inv):
        if inv["iter"] >= 0:
            inv["snaps"].append(([s.copy() for s in inv["state"]], list(inv["llk"])))

    def _note_state(self, kind, inv, t, g, llk):
        inv["state"][t] = self.np.array(g).copy()
        inv["llk"][t] = float(llk)
        self.traj.append((kind, t, inv["state"][t].tobytes(), float(llk)))

    def _check_luh(self, inv, luh):
        luh = float(luh)
        if inv["luh"] is None:
            exact = sum(math.log(a) for a in inv["n_alleles"])
            if abs(luh - exact) > 2e-3 * max(1.0, abs(exact)):
                self.viol("log_unique_haplotypes", "log_unique_haplotypes=%r but sum(log n_alleles)=%r" % (luh, exact))
            inv["luh"] = luh
        elif luh != inv["luh"]:
            self.viol("log_unique_haplotypes", "log_unique_haplotypes changed within a run: %r -> %r" % (inv["luh"], luh))

    def _check_carried(self, where, inv, g, llk, temp=None):
        """llk handed to / returned by a step equals the likelihood of the state."""
        if "db" in self.checks:
            want = self.llk_ref(g, inv)
            if not rel_close(float(llk), want, 1e-8):
                self.viol("carried_llk", "%s: carried llk %r != reference likelihood %r of the carried state" % (where, float(llk), want),
                          state=g, where=where)
        if "cache" in self.checks:
            fresh = self.fresh_llk(inv["reads"], g, inv["counts"])
            if not rel_close(float(llk), fresh):
                self.viol("carried_llk", "%s: carried llk %r != recomputed %r" % (where, float(llk), fresh), state=g, where=where)
        if temp is not None and inv["t"] is not None:
            if float(temp) != inv["temps"][inv["t"]]:
                self.viol("wrong_temperature", "%s: chain t=%d received temp %r, ladder says %r" % (where, inv["t"], float(temp), inv["temps"][inv["t"]]))

    # -- mutation -----------------------------------------------------------
    def w_mut_compound(self, *args, **kwargs):
        a = bind(self.real["mut_compound"], args, kwargs)
        inv = self.inv
        np = self.np
        g = a["genotype"]
        if inv is not None and not self.in_probe:
            t = inv["mut_calls"] % inv["n_temps"]
            if t == 0:
                self._end_iteration(inv)
                inv["iter"] += 1
                self.ctx.step = inv["iter"]
            inv["mut_calls"] += 1
            inv["t"] = t
            self._check_luh(inv, a["log_unique_haplotypes"])
            # the state the sampler hands us must be the one our model says chain t holds
            if not np.array_equal(g, inv["state"][t]):
                self.viol("orchestration", "chain t=%d was handed a state that is not the one it held" % t,
                          got=g, expected=inv["state"][t])
            if self.cfg.get("row_permute") and g.shape[0] > 1 and self.ctx.tape.chance(0.5):
                perm = list(range(g.shape[0]))
                self.rng.shuffle(perm)
                g[:] = g[perm].copy()
                inv["state"][t] = g.copy()
                self.ctx.counters.inc("row_permute")
            self._check_carried("mutation.compound_step entry", inv, g, a["llk"], a["temp"])
            sweep = {"ploidy": int(g.shape[0]), "n_base": int(g.shape[1]), "visits": []}
            self.sweeps.append(sweep)
            inv["sweep"] = sweep
        self.ctx.log.add("mut_compound", g)
        llk, cache = self.real["mut_compound"](**a)
        if inv is not None and not self.in_probe:
            self._check_carried("mutation.compound_step exit", inv, g, llk)
            self._note_state("mut", inv, inv["t"], g, llk)
            self._check_sweep(inv["sweep"])
            inv["sweep"] = None
        return llk, cache

    def _check_sweep(self, sweep):
        if "sweep" not in self.checks and "db" not in self.checks:
            return
        want = sorted((h, j) for h in range(sweep["ploidy"]) for j in range(sweep["n_base"]))
        got = sorted(sweep["visits"])
        if got != want:
            missing = sorted(set(want) - set(got))
            extra = sorted(v for v in set(got) if got.count(v) > 1 or v not in set(want))
            self.viol("sweep_not_exactly_once",
                      "mutation sweep visited %d (h,j) pairs, expected each of %d exactly once; missing %r, repeated/illegal %r"
                      % (len(got), len(want), missing[:6], extra[:6]),
                      n_base=sweep["n_base"], ploidy=sweep["ploidy"], over_127=sweep["n_base"] > 127)
        self.ctx.counters.inc("sweeps_checked")

    def w_base_step(self, *args, **kwargs):
        a = bind(self.real["base_step"], args, kwargs)
        if self.in_probe:
            return self.real["base_step"](**a)
        inv = self.inv
        np = self.np
        g = a["genotype"]
        h, j = int(a["h"]), int(a["j"])
        if inv is not None and inv.get("sweep") is not None:
            inv["sweep"]["visits"].append((h, j))
        x = g.copy()
        self.rng.last_vec = None
        llk, cache = self.real["base_step"](**a)
        vec, choice = self.rng.last_vec, self.rng.last_choice
        self.ctx.log.add("base", h, j, vec, choice)
        if inv is None:
            return llk, cache
        if vec is None:
            raise HarnessError("base_step made no observable categorical draw: the move cannot be checked")
        y = g.copy()
        exp = x.copy()
        exp[h, j] = choice
        if not np.array_equal(y, exp):
            self.viol("state_update", "base_step chose allele %d but the state is not x[h,j:=choice]" % choice, before=x, after=y, h=h, j=j)
        self._check_carried("base_step exit", inv, g, llk)
        self._note_state("base", inv, inv["t"], g, llk)
        if "db" in self.checks:
            self._db_base(inv, a, x, h, j, vec)
        return llk, cache

    def _probe_base(self, inv, a, y, h, j):
        """Probability vector of base_step at state y (side-effect free)."""
        holder = {}

        def probe(p):
            holder["p"] = p
            return int(y[h, j])

        self.in_probe += 1
        old = self.rng.probe
        self.rng.probe = probe
        try:
            self.real["base_step"](
                genotype=y.copy(), reads=a["reads"], llk=self.llk_ref(y, inv), h=a["h"], j=a["j"],
                n_alleles=a["n_alleles"], log_unique_haplotypes=a["log_unique_haplotypes"],
                inbreeding=a["inbreeding"], temp=a["temp"], read_counts=a["read_counts"], cache=None,
            )
        finally:
            self.rng.probe = old
            self.in_probe -= 1
        return holder["p"]

    def _db_base(self, inv, a, x, h, j, px):
        np = self.np
        T = float(a["temp"])
        n_all = int(a["n_alleles"])
        if n_all != inv["n_alleles"][j]:
            self.viol("orchestration", "base_step at site %d received n_alleles=%d, locus has %d" % (j, n_all, inv["n_alleles"][j]))
        if len(px) != n_all:
            self.viol("bad_probability_vector", "base_step vector has %d entries for %d alleles" % (len(px), n_all))
        cur = int(x[h, j])
        lpx = T * self.lpost(x, inv) - ref.ln_nperm_haps(x)
        dup = ref.ln_nperm_haps(x) < math.lgamma(len(x) + 1) - 1e-12
        for al in range(n_all):
            if al == cur:
                continue
            y = x.copy()
            y[h, j] = al
            lpy = T * self.lpost(y, inv) - ref.ln_nperm_haps(y)
            if px[al] <= TINY:
                # forward underflow is acceptable only if theory says so
                if lpy > -math.inf and lpx > -math.inf:
                    theo = min(0.0, lpy - lpx) - math.log(max(1, n_all - 1))
                    if theo > UNDERFLOW:
                        self.viol("detailed_balance_mutation", "forward probability is 0 but the reference says log p = %.3f" % theo,
                                  x=x, h=h, j=j, allele=al, temp=T)
                self.ctx.counters.inc("underflow_skip")
                continue
            py = self._probe_base(inv, a, y, h, j)
            if py[cur] <= TINY:
                theo = lpx + math.log(px[al]) - lpy
                if theo > UNDERFLOW:
                    self.viol("detailed_balance_mutation", "reverse probability is 0 but the reference says log p = %.3f" % theo,
                              x=x, h=h, j=j, allele=al, temp=T)
                self.ctx.counters.inc("underflow_skip")
                continue
            lhs = lpx + math.log(px[al])
            rhs = lpy + math.log(py[cur])
            if lpx == -math.inf or lpy == -math.inf:
                self.ctx.counters.inc("zero_density_skip")
                continue
            dev = abs(lhs - rhs)
            self.ctx.counters.inc("db_mutation_pairs")
            if dev > TOL_LOG:
                self.viol("detailed_balance_mutation",
                          "pi_T(x)/nperm(x) p(x->y) != pi_T(y)/nperm(y) p(y->x): log deviation %.3g" % dev,
                          x=x, h=h, j=j, allele=al, temp=T, inbreeding=inv["F"], p_forward=float(px[al]), p_reverse=float(py[cur]),
                          dup_state=dup, heated=T < 1.0, multiallelic=n_all > 2)
            self.ctx.key("mut", inv["ploidy"], tuple(inv["n_alleles"]), ref.hap_key(x), h_row(x, h), j, al, T)
        if dup:
            self.ctx.counters.inc("dup_state_move")
        if T < 1.0:
            self.ctx.counters.inc("heated_move")
        if n_all > 2:
            self.ctx.counters.inc("multiallelic_move")
        # multiset-only dependence: permuting rows permutes the kernel
        if self.cfg.get("row_permute") and len(x) > 1:
            perm = deterministic_perm(len(x), (self.ctx.step, h, j))
            xp = x[perm].copy()
            hp = perm.index(h)
            a2 = dict(a)
            a2["h"] = hp
            pp = self._probe_base(inv, a2, xp, hp, j)
            if np.max(np.abs(pp - px)) > 1e-9:
                self.viol("order_dependence", "mutation kernel changed when rows of the genotype were permuted",
                          x=x, perm=perm, h=h, j=j, p=px, p_permuted=pp)
            self.ctx.counters.inc("order_probe")

    # -- structural ---------------------------------------------------------
    def w_random_breaks(self, *args, **kwargs):
        a = bind(self.real["random_breaks"], args, kwargs)
        out = self.real["random_breaks"](**a)
        self.ctx.log.add("breaks", int(a["breaks"]), int(a["n"]), out)
        self.breaks.append((int(a["breaks"]), int(a["n"]), self.np.array(out).copy()))
        check_partition(self, int(a["breaks"]), int(a["n"]), out)
        return out

    def w_struct_compound(self, *args, **kwargs):
        a = bind(self.real["struct_compound"], args, kwargs)
        inv = self.inv
        if inv is not None and not self.in_probe:
            self._check_carried("structural.compound_step entry", inv, a["genotype"], a["llk"], a["temp"])
            self._check_luh(inv, a["log_unique_haplotypes"])
            iv = self.np.array(a["intervals"])
            n = inv["n_base"]
            # intervals handed to the structural step must partition [0, n)
            check_partition(self, len(iv) - 1, n, iv)
        self.ctx.log.add("struct_compound", int(a["step_type"]), a["intervals"])
        llk, cache = self.real["struct_compound"](**a)
        if inv is not None and not self.in_probe:
            self._check_carried("structural.compound_step exit", inv, a["genotype"], llk)
            self._note_state("struct", inv, inv["t"], a["genotype"], llk)
        return llk, cache

    def _options(self, g, interval, step_type):
        """(option index -> resulting genotype) as interval_step applies them."""
        labels = self.real["seg_labels"](g, interval)
        opts = self.real["rec_opts"](labels) if step_type == 0 else self.real["dos_opts"](labels)
        out = []
        for i in range(len(opts)):
            y = g.copy()
            self.real["structural_change"](y, opts[i, :, 0], interval)
            out.append(y)
        return out

    def _probe_interval(self, inv, a, y):
        holder = {"p": None}

        def probe(p):
            holder["p"] = p
            return len(p) - 1  # "stay"

        self.in_probe += 1
        old = self.rng.probe
        self.rng.probe = probe
        try:
            self.real["interval_step"](
                genotype=y.copy(), reads=a["reads"], llk=self.llk_ref(y, inv),
                log_unique_haplotypes=a["log_unique_haplotypes"], inbreeding=a["inbreeding"],
                interval=a["interval"], step_type=a["step_type"], temp=a["temp"],
                read_counts=a["read_counts"], cache=None,
            )
        finally:
            self.rng.probe = old
            self.in_probe -= 1
        return holder["p"]

    def w_interval_step(self, *args, **kwargs):
        a = bind(self.real["interval_step"], args, kwargs)
        if self.in_probe:
            return self.real["interval_step"](**a)
        inv = self.inv
        np = self.np
        g = a["genotype"]
        x = g.copy()
        self.rng.last_vec = None
        llk, cache = self.real["interval_step"](**a)
        vec, choice = self.rng.last_vec, self.rng.last_choice
        self.ctx.log.add("interval", a["interval"], int(a["step_type"]), vec, choice if vec is not None else None)
        if inv is None:
            return llk, cache
        self._check_carried("interval_step exit", inv, g, llk)
        self._note_state("interval", inv, inv["t"], g, llk)
        if "db" in self.checks:
            self._db_interval(inv, a, x, g.copy(), vec, choice)
        return llk, cache

    def _db_interval(self, inv, a, x, post, px, choice):
        np = self.np
        T = float(a["temp"])
        st = int(a["step_type"])
        iv = np.array(a["interval"])
        ys = self._options(x, iv, st)
        kx = ref.hap_key(x)
        if px is None:
            # no draw: the step declared that there are no options
            if len(ys) != 0:
                self.viol("detailed_balance_structural", "interval_step made no draw although options exist", x=x, interval=iv, step_type=st)
            if not np.array_equal(post, x):
                self.viol("state_update", "interval_step without options changed the state", before=x, after=post)
            self.ctx.counters.inc("zero_option_interval")
            return
        if len(px) != len(ys) + 1:
            self.viol("bad_probability_vector", "interval_step vector has %d entries for %d options" % (len(px), len(ys)), x=x, interval=iv)
        # executed choice lands where we think it lands
        want = x if choice == len(ys) else ys[choice]
        if not np.array_equal(post, want):
            self.viol("state_update", "interval_step applied a different rearrangement than the chosen option", before=x, after=post, expected=want)
        keys = [ref.hap_key(y) for y in ys]
        if len(set(keys)) != len(keys):
            self.viol("detailed_balance_structural", "two options of one structural move denote the same genotype", x=x, interval=iv, step_type=st)
        if kx in keys:
            self.viol("detailed_balance_structural", "an option of a structural move denotes the current genotype", x=x, interval=iv, step_type=st)
        lpx = T * self.lpost(x, inv)
        order = list(range(len(ys)))
        if self.probe_budget is not None and len(order) > self.probe_budget:
            keep = {choice} if choice < len(ys) else set()
            rest = [i for i in order if i not in keep]
            sel = deterministic_perm(len(rest), (self.ctx.step, st, int(iv[0]), int(iv[1])))
            keep |= {rest[i] for i in sel[: self.probe_budget - len(keep)]}
            order = sorted(keep)
        for i in order:
            y = ys[i]
            lpy = T * self.lpost(y, inv)
            py = self._probe_interval(inv, a, y)
            yback = self._options(y, iv, st)
            if py is None:
                self.viol("detailed_balance_structural", "move x->y exists but y has no options at all (no return)", x=x, y=y, interval=iv, step_type=st)
            back = [k for k in range(len(yback)) if ref.hap_key(yback[k]) == kx]
            if len(back) != 1:
                self.viol("detailed_balance_structural", "x appears %d times among the options of y (must be exactly once)" % len(back),
                          x=x, y=y, interval=iv, step_type=st)
            pb = float(py[back[0]])
            pf = float(px[i])
            if lpx == -math.inf or lpy == -math.inf:
                self.ctx.counters.inc("zero_density_skip")
                continue
            if pf <= TINY or pb <= TINY:
                theo = (lpy - lpx) if pf <= TINY else (lpx - lpy)
                if pf <= TINY and pb <= TINY:
                    self.ctx.counters.inc("underflow_skip")
                    continue
                # one side zero: other side must be explained by underflow
                known = math.log(pb) if pf <= TINY else math.log(pf)
                if theo + known > UNDERFLOW:  # detailed balance says the vanished side is exp(theo + known)
                    self.viol("detailed_balance_structural", "one direction has probability 0, the other %g" % math.exp(known),
                              x=x, y=y, interval=iv, step_type=st, temp=T)
                self.ctx.counters.inc("underflow_skip")
                continue
            dev = abs(lpx + math.log(pf) - lpy - math.log(pb))
            self.ctx.counters.inc("db_structural_pairs")
            if dev > TOL_LOG:
                self.viol("detailed_balance_structural",
                          "pi_T(x) p(x->y) != pi_T(y) p(y->x): log deviation %.3g" % dev,
                          x=x, y=y, interval=iv, step_type=st, temp=T, inbreeding=inv["F"], p_forward=pf, p_reverse=pb,
                          full_length=bool(iv[0] == 0 and iv[1] == inv["n_base"]), heated=T < 1.0)
            self.ctx.key("struct", st, inv["ploidy"], tuple(inv["n_alleles"]), kx, keys[i], int(iv[0]), int(iv[1]), T)
        self.ctx.counters.inc("recombination_move" if st == 0 else "dosage_move")
        if T < 1.0:
            self.ctx.counters.inc("heated_move")
        if ref.ln_nperm_haps(x) < math.lgamma(len(x) + 1) - 1e-12:
            self.ctx.counters.inc("dup_state_move")
        if self.cfg.get("row_permute") and len(x) > 1:
            perm = deterministic_perm(len(x), (self.ctx.step, st, int(iv[0])))
            xp = x[perm].copy()
            pp = self._probe_interval(inv, a, xp)
            yp = self._options(xp, iv, st)
            m1 = {}
            for k, y in enumerate(ys):
                m1[keys[k]] = float(px[k])
            m2 = {}
            if pp is not None:
                for k, y in enumerate(yp):
                    m2[ref.hap_key(y)] = m2.get(ref.hap_key(y), 0.0) + float(pp[k])
            if set(m1) != set(m2) or any(abs(m1[k] - m2[k]) > 1e-9 for k in m1):
                self.viol("order_dependence", "structural move distribution changed when rows of the genotype were permuted",
                          x=x, perm=perm, interval=iv, step_type=st)
            self.ctx.counters.inc("order_probe")

    # -- exchange -----------------------------------------------------------
    def w_chain_swap_acceptance(self, *args, **kwargs):
        a = bind(self.real["chain_swap_acceptance"], args, kwargs)
        out = self.real["chain_swap_acceptance"](**a)
        if not self.in_probe:
            self.last_acc = (dict(a), float(out))
        return out

    def w_chain_swap_step(self, *args, **kwargs):
        a = bind(self.real["chain_swap_step"], args, kwargs)
        inv = self.inv
        np = self.np
        gi, gj = a["genotype_i"], a["genotype_j"]
        xi, xj = gi.copy(), gj.copy()
        self.last_acc = None
        self.rng.last_unit = None
        li, lj = self.real["chain_swap_step"](**a)
        u = self.rng.last_unit
        self.ctx.log.add("swap", xi, xj, self.last_acc[1] if self.last_acc else None, u)
        if inv is None:
            return li, lj
        t = inv["t"]
        Ti, Tj = float(a["temp_i"]), float(a["temp_j"])
        if t is None or t < 1 or Ti != inv["temps"][t] or Tj != inv["temps"][t - 1]:
            self.viol("wrong_temperature", "exchange between temperatures (%r, %r) but chain t=%r and ladder %r" % (Ti, Tj, t, inv["temps"]))
        if not np.array_equal(xj, inv["state"][t - 1]):
            self.viol("orchestration", "exchange partner state is not the state chain t-1 held", got=xj, expected=inv["state"][t - 1])
        self._check_carried("chain_swap_step entry (i)", inv, xi, a["llk_i"])
        self._check_carried("chain_swap_step entry (j)", inv, xj, a["llk_j"])
        if self.last_acc is None or u is None:
            raise HarnessError("chain_swap_step did not go through the chain_swap_acceptance / np.random.rand seams: the exchange cannot be checked")
        acc = self.last_acc[1]
        swapped = np.array_equal(gi, xj) and np.array_equal(gj, xi)
        stayed = np.array_equal(gi, xi) and np.array_equal(gj, xj)
        same = np.array_equal(xi, xj)
        if not (swapped or stayed):
            self.viol("state_update", "exchange left the chains in states that are neither swapped nor unchanged", xi=xi, xj=xj, gi=gi, gj=gj)
        want_swap = acc >= u
        if not same and swapped != want_swap:
            self.viol("exchange_decision", "acceptance %r, uniform %r, swapped=%r" % (acc, u, swapped))
        if swapped and not same or (same and want_swap):
            want_l = (float(a["llk_j"]), float(a["llk_i"]))
            self.ctx.counters.inc("exchange_accepted")
        else:
            want_l = (float(a["llk_i"]), float(a["llk_j"]))
            self.ctx.counters.inc("exchange_rejected")
        if not (rel_close(float(li), want_l[0]) and rel_close(float(lj), want_l[1])):
            self.viol("carried_llk", "exchange returned likelihoods %r, expected %r" % ((float(li), float(lj)), want_l), where="chain_swap_step")
        self._check_carried("chain_swap_step exit (i)", inv, gi, li)
        self._check_carried("chain_swap_step exit (j)", inv, gj, lj)
        self._note_state("swap_i", inv, t, gi, li)
        self._note_state("swap_j", inv, t - 1, gj, lj)
        if "db" in self.checks:
            Ui, Uj = self.lpost(xi, inv), self.lpost(xj, inv)
            if Ui > -math.inf and Uj > -math.inf:
                # reverse: the configuration after a swap
                self.in_probe += 1
                try:
                    rev = float(self.real["chain_swap_acceptance"](
                        self.llk_ref(xj, inv), ref.lprior_assemble(xj.tolist(), inv["luh"], inv["F"]), Ti,
                        self.llk_ref(xi, inv), ref.lprior_assemble(xi.tolist(), inv["luh"], inv["F"]), Tj))
                finally:
                    self.in_probe -= 1
                want = (Uj - Ui) * (Ti - Tj)
                if not (0.0 <= acc <= 1.0 and 0.0 <= rev <= 1.0):
                    self.viol("detailed_balance_exchange", "acceptance outside [0,1]: %r / %r" % (acc, rev))
                if acc > 0 and rev > 0:
                    dev = abs(math.log(acc) - math.log(rev) - want)
                    if dev > TOL_LOG and max(want, -want) < -UNDERFLOW:
                        self.viol("detailed_balance_exchange",
                                  "log A(x_i,x_j) - log A(x_j,x_i) = %.6g, tempered posterior ratio says %.6g" % (math.log(acc) - math.log(rev), want),
                                  xi=xi, xj=xj, temp_i=Ti, temp_j=Tj, inbreeding=inv["F"])
                    if max(acc, rev) < 1.0 - 1e-12:
                        self.viol("detailed_balance_exchange", "neither direction of an exchange is accepted with probability 1 (%r, %r)" % (acc, rev),
                                  xi=xi, xj=xj)
                elif abs(want) < -UNDERFLOW:
                    self.viol("detailed_balance_exchange", "exchange acceptance is 0 (%r / %r) but ratio is exp(%.3f)" % (acc, rev, want), xi=xi, xj=xj)
                self.ctx.counters.inc("db_exchange_pairs")
                self.ctx.key("swap", ref.hap_key(xi), ref.hap_key(xj), Ti, Tj)
        return li, lj

    # -- cache ----------------------------------------------------------------
    def w_new_cache(self, ploidy, n_base, max_alleles, max_size=2 ** 16):
        c = self.cfg["cache"]
        self.cache_model = {}
        self.cache_len = None
        if self.inv is not None:
            self.inv["cache_on"] = True
        self.ctx.counters.inc("cache_created")
        if c["mode"] == "tiny":
            return self.real["am_new"](ploidy * n_base, max_alleles, initial_size=c["initial_size"], max_size=c["max_size"])
        return self.real["new_cache"](ploidy, n_base, max_alleles, max_size)

    def w_am_get(self, array_map, array):
        out = self.real["am_get"](array_map, array)
        if array_map is not None and self.cache_model is not None and "cache" in self.checks:
            want = self.cache_model.get(tuple(int(v) for v in array), float("nan"))
            out_f = float(out)
            if not ((out_f != out_f and want != want) or out_f == want):
                self.viol("cache_incoherent", "arraymap.get returned %r, model says %r" % (out_f, want), key=array)
            self.ctx.counters.inc("cache_hit" if out_f == out_f else "cache_miss")
        return out

    def w_am_set(self, array_map, array, value, empty_if_full=False):
        new = self.real["am_set"](array_map, array, value, empty_if_full)
        if array_map is not None and self.cache_model is not None:
            flushed = (new[3] == 1 and new[4] == 0)
            if flushed:
                self.cache_model.clear()
                self.ctx.counters.inc("cache_flush")
            else:
                self.cache_model[tuple(int(v) for v in array)] = float(value)
            ln = (len(new[0]), len(new[1]))
            if self.cache_len is not None and ln != self.cache_len:
                self.ctx.counters.inc("cache_growth")
            self.cache_len = ln
            if "cache" in self.checks and not flushed and self.ctx.counters.get("cache_set", 0) % 7 == 0:
                # growth / insertion preserves all entries (sampled full audit)
                for k, v in self.cache_model.items():
                    got = float(self.real["am_get"](new, self.np.array(k, dtype=self.np.int8)))
                    if got != v:
                        self.viol("cache_incoherent", "after set/growth arraymap holds %r for a key whose value is %r" % (got, v), key=list(k))
            self.ctx.counters.inc("cache_set")
        return new

    def w_llk_cached(self, *args, **kwargs):
        a = bind(self.real["llk_cached"], args, kwargs)
        llk, cache = self.real["llk_cached"](**a)
        if "cache" in self.checks and not self.in_probe:
            fresh = self.fresh_llk(a["reads"], a["genotype"], a["read_counts"])
            if not rel_close(float(llk), fresh):
                self.viol("cached_value_wrong", "log_likelihood_cached returned %r, recomputed %r" % (float(llk), fresh), genotype=a["genotype"])
            self.ctx.counters.inc("cached_calls_checked")
        return llk, cache

    def w_llk_struct_cached(self, *args, **kwargs):
        a = bind(self.real["llk_struct_cached"], args, kwargs)
        llk, cache = self.real["llk_struct_cached"](**a)
        if "cache" in self.checks and not self.in_probe:
            y = a["genotype"].copy()
            self.real["structural_change"](y, a["haplotype_indices"], a["interval"])
            fresh = self.fresh_llk(a["reads"], y, a["read_counts"])
            if not rel_close(float(llk), fresh):
                self.viol("cached_value_wrong", "log_likelihood_structural_change_cached returned %r, recomputed %r for the rearranged genotype" % (float(llk), fresh),
                          genotype=a["genotype"], rearranged=y)
            self.ctx.counters.inc("cached_calls_checked")
        return llk, cache


def check_mutation_sweep_kernel(ctx, cfg):
    """Tiny instances only (ploidy 2, one or two bi-allelic SNVs): the exact kernel of ONE mutation sweep
    (mutation.compound_step: shuffled (h, j) sub-steps) over unordered genotypes is extracted by scripting
    the shuffle and every allele draw through the seams; the tempered posterior must be stationary under it."""
    import itertools
    m = bootstrap()
    np = m["np"]
    sim = AssembleSim(ctx, cfg, checks=())
    reads, counts = sim.reads, sim.counts
    if len(reads) == 0:
        reads = np.full((1, len(cfg["n_alleles"]), max(cfg["n_alleles"])), np.nan)
        counts = None
    reads_l, counts_l = sim.lists(reads, counts)
    pl = cfg["ploidy"]
    n_alleles = cfg["n_alleles"]
    n_pos = len(n_alleles)
    T = float(cfg["temperatures"][0])
    F = float(cfg["inbreeding"])
    luh = float(np.log(np.array(n_alleles, dtype=np.int8)).sum())  # as the sampler computes it (float16 artefact included)
    haps = list(itertools.product(*[range(a) for a in n_alleles]))
    states = list(itertools.combinations_with_replacement(haps, pl))
    def lpi(g):
        rows = [list(h) for h in g]
        return T * (ref.read_llk(reads_l, counts_l, rows) + ref.lprior_assemble(rows, luh, F))
    lp = [lpi(g) for g in states]
    z = ref.log_sum_exp(lp)
    pi = {g: math.exp(l - z) for g, l in zip(states, lp)}
    n_sub = pl * n_pos
    orders = list(itertools.product(*[range(i + 1) for i in range(n_sub - 1, 0, -1)])) or [()]
    max_a = max(n_alleles)
    K = {g: {} for g in states}
    with Seams() as seams:
        sim.install(seams)
        sim.in_probe += 1
        try:
            for g in states:
                for fy in orders:
                    for ch in itertools.product(range(max_a), repeat=n_sub):
                        x = np.array(g, dtype=np.int8)
                        prob = [1.0 / len(orders)]
                        k = [0]
                        dead = [False]

                        def probe(vec, _ch=ch, _prob=prob, _k=k, _dead=dead):
                            i = _ch[_k[0]] if _k[0] < len(_ch) else 0
                            _k[0] += 1
                            if i >= len(vec):
                                _dead[0] = True
                                return 0
                            _prob[0] *= float(vec[i])
                            return i

                        sim.rng.probe = probe
                        sim.rng.int_script = list(fy)
                        try:
                            sim.real["mut_compound"](genotype=x, reads=reads, llk=float(sim.real["log_likelihood"](reads, x, read_counts=counts)),
                                                     n_alleles=np.array(n_alleles, dtype=np.int8), log_unique_haplotypes=luh, inbreeding=F, temp=T,
                                                     read_counts=counts, cache=None)
                        finally:
                            sim.rng.probe = None
                            sim.rng.int_script = None
                        if k[0] > n_sub:
                            raise HarnessError("mutation.compound_step made %d draws for %d sub-steps: the sweep kernel cannot be extracted" % (k[0], n_sub))
                        if k[0] < n_sub and any(ch[k[0]:]):
                            continue  # fewer draws than sub-steps on this path: counted once, under the all-zero tail of the script
                        if dead[0]:
                            continue  # a draw index beyond that site's allele count: not a path
                        y = tuple(sorted(tuple(int(v) for v in row) for row in x))
                        K[g][y] = K[g].get(y, 0.0) + prob[0]
        finally:
            sim.in_probe -= 1
    for g in states:
        tot = sum(K[g].values())
        if abs(tot - 1.0) > 1e-9:
            raise Violation("sweep_kernel_not_stochastic", "one-sweep mutation kernel row sums to %r" % tot, step=0, detail={"state": g})
    worst, at = 0.0, None
    for y in states:
        inflow = sum(pi[g] * K[g].get(y, 0.0) for g in states)
        if abs(inflow - pi[y]) > worst:
            worst, at = abs(inflow - pi[y]), y
    ctx.counters.inc("sweep_kernels_extracted")
    ctx.key("mut_sweep_kernel", pl, tuple(n_alleles), T, F, cfg["data_seed"])
    if worst > 1e-9:
        raise Violation("sweep_not_stationary",
                        "the tempered posterior is not stationary under one full mutation sweep: |sum_x pi(x)K(x,y) - pi(y)| = %.3g at y = %r" % (worst, at),
                        step=0, detail={"ploidy": pl, "n_alleles": n_alleles, "temp": T, "inbreeding": F})


def check_structural_sweep_kernel(ctx, cfg):
    """Tiny instances only: the exact kernel of ONE structural compound step (structural.compound_step: randomly permuted
    intervals, one recombination or dosage sub-step per interval) over unordered genotypes, extracted by scripting the
    permutation and exploring every categorical draw depth-first through the seams; the tempered posterior must be stationary
    under it.  Every sub-step can be exact while the SWEEP is not - e.g. if which sub-steps run depends on earlier outcomes."""
    import itertools
    m = bootstrap()
    np = m["np"]
    sim = AssembleSim(ctx, cfg, checks=())
    reads, counts = sim.reads, sim.counts
    if len(reads) == 0:
        reads = np.full((1, len(cfg["n_alleles"]), max(cfg["n_alleles"])), np.nan)
        counts = None
    reads_l, counts_l = sim.lists(reads, counts)
    pl = cfg["ploidy"]
    n_alleles = cfg["n_alleles"]
    T = float(cfg["temperatures"][0])
    F = float(cfg["inbreeding"])
    luh = float(np.log(np.array(n_alleles, dtype=np.int8)).sum())
    haps = list(itertools.product(*[range(a) for a in n_alleles]))
    states = list(itertools.combinations_with_replacement(haps, pl))

    def lpi(g):
        rows = [list(h) for h in g]
        return T * (ref.read_llk(reads_l, counts_l, rows) + ref.lprior_assemble(rows, luh, F))

    lp = [lpi(g) for g in states]
    z = ref.log_sum_exp(lp)
    pi = {g: math.exp(l - z) for g, l in zip(states, lp)}
    intervals = np.array(cfg["sweep_intervals"], dtype=np.int64)
    n_int = len(intervals)
    st = int(cfg["sweep_step_type"])
    orders = list(itertools.product(*[range(i + 1) for i in range(n_int - 1, 0, -1)])) or [()]
    K = {g: {} for g in states}
    n_paths = 0
    with Seams() as seams:
        sim.install(seams)
        sim.in_probe += 1
        try:
            for g in states:
                for fy in orders:
                    stack = [[]]
                    while stack:
                        prefix = stack.pop()
                        sizes = []
                        prob = [1.0 / len(orders)]

                        def probe(vec, _prefix=prefix, _sizes=sizes, _prob=prob):
                            k = len(_sizes)
                            i = _prefix[k] if k < len(_prefix) else 0
                            _sizes.append(len(vec))
                            _prob[0] *= float(vec[i])
                            return i

                        x = np.array(g, dtype=np.int8)
                        sim.rng.probe = probe
                        sim.rng.int_script = list(fy)
                        try:
                            sim.real["struct_compound"](genotype=x, reads=reads, llk=float(sim.real["log_likelihood"](reads, x, read_counts=counts)),
                                                        intervals=intervals.copy(), log_unique_haplotypes=luh, inbreeding=F, step_type=st, randomize=True,
                                                        temp=T, read_counts=counts, cache=None)
                        finally:
                            sim.rng.probe = None
                            leftover = sim.rng.int_script
                            sim.rng.int_script = None
                        if leftover:
                            raise HarnessError("structural.compound_step did not draw the scripted permutation: the sweep kernel cannot be extracted")
                        n_paths += 1
                        if n_paths > 200000:
                            raise HarnessError("structural sweep kernel: path explosion")
                        y = tuple(sorted(tuple(int(v) for v in row) for row in x))
                        K[g][y] = K[g].get(y, 0.0) + prob[0]
                        for k in range(len(prefix), len(sizes)):
                            for alt in range(1, sizes[k]):
                                stack.append(prefix + [0] * (k - len(prefix)) + [alt])
        finally:
            sim.in_probe -= 1
    for g in states:
        tot = sum(K[g].values())
        if abs(tot - 1.0) > 1e-9:
            raise Violation("sweep_kernel_not_stochastic", "one-sweep structural kernel row sums to %r" % tot, step=0, detail={"state": g})
    worst, at = 0.0, None
    for y in states:
        inflow = sum(pi[g] * K[g].get(y, 0.0) for g in states)
        if abs(inflow - pi[y]) > worst:
            worst, at = abs(inflow - pi[y]), y
    ctx.counters.inc("structural_sweep_kernels_extracted")
    ctx.key("struct_sweep_kernel", pl, tuple(n_alleles), T, F, st, tuple(map(tuple, cfg["sweep_intervals"])), cfg["data_seed"])
    if worst > 1e-9:
        raise Violation("sweep_not_stationary",
                        "the tempered posterior is not stationary under one full structural compound step (%s, intervals %r): |sum_x pi(x)K(x,y) - pi(y)| = %.3g at y = %r"
                        % ("recombination" if st == 0 else "dosage swap", cfg["sweep_intervals"], worst, at),
                        step=0, detail={"ploidy": pl, "n_alleles": n_alleles, "temp": T, "inbreeding": F, "step_type": st})


def h_row(x, h):
    return tuple(int(v) for v in x[h])


def deterministic_perm(n, salt):
    r = _random.Random(repr(salt))
    p = list(range(n))
    r.shuffle(p)
    return p


def check_partition(sim, breaks, n, intervals):
    """intervals: non-empty, contiguous, ordered, cover [0, n), count = breaks+1."""
    np = sim.np
    iv = np.asarray(intervals)
    ok = iv.ndim == 2 and iv.shape[1] == 2 and len(iv) == breaks + 1
    if ok:
        pos = 0
        for k in range(len(iv)):
            a, b = int(iv[k, 0]), int(iv[k, 1])
            if a != pos or b <= a:
                ok = False
                break
            pos = b
        ok = ok and pos == n
    if not ok:
        raise Violation("intervals_not_partition",
                        "random intervals %r do not partition [0,%d) into %d contiguous non-empty intervals" % (iv.tolist(), n, breaks + 1),
                        step=sim.ctx.step, detail={"breaks": breaks, "n": n, "intervals": iv})
    sim.ctx.counters.inc("partitions_checked")


def shrink_candidates(cfg, violation):
    """Smaller / simpler configurations, most aggressive first."""
    out = []

    def mod(**kw):
        c = dict(cfg)
        c.update(kw)
        if c != cfg:
            out.append(c)

    step = (violation or {}).get("step")
    if isinstance(step, int) and step + 1 < cfg["steps"]:
        mod(steps=step + 1)
    if cfg["chains"] > 1:
        mod(chains=1)
    if cfg.get("row_permute"):
        mod(row_permute=False)
    if cfg.get("adv_rate", 0) > 0:
        mod(adv_rate=0.0)
    if len(cfg["temperatures"]) > 1:
        mod(temperatures=cfg["temperatures"][1:])
        mod(temperatures=[cfg["temperatures"][0], 1.0])
    if cfg["cache"]["mode"] != "off":
        mod(cache={"mode": "off", "initial_size": 64, "max_size": 2 ** 16})
    if cfg["n_reads"] > 1:
        mod(n_reads=max(1, cfg["n_reads"] // 2))
        mod(n_reads=cfg["n_reads"] - 1)
    if cfg["counts"] != "none":
        mod(counts="none")
    if cfg["gap_rate"] > 0:
        mod(gap_rate=0.0)
    if len(cfg["n_alleles"]) > 1:
        mod(n_alleles=cfg["n_alleles"][:-1], n_intervals=None)
        mod(n_alleles=cfg["n_alleles"][1:], n_intervals=None)
    if any(a > 2 for a in cfg["n_alleles"]):
        mod(n_alleles=[min(a, 2) for a in cfg["n_alleles"]])
    if cfg["ploidy"] > 2:
        mod(ploidy=cfg["ploidy"] - 1)
        mod(ploidy=2)
    if cfg["inbreeding"] > 0:
        mod(inbreeding=0.0)
    for k in ("p_recomb", "p_partial", "p_dosage"):
        if cfg[k] > 0:
            mod(**{k: 0.0})
    if cfg["initial"] != "none":
        mod(initial="none")
    if cfg["steps"] > 1:
        mod(steps=cfg["steps"] - 1)
    if cfg.get("heated_trace"):
        mod(heated_trace=False)
    return out
