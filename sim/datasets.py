"""Synthetic datasets for engine P: real FASTA / SNV VCF / BED / BAM files
written with pysam from a data seed, plus the repo's own test dataset.

Everything is a deterministic function of the data seed.  Read names are
globally unique across samples (C10 generator constraint).
"""
import os
import random

BASES = "ACGT"


def repo_simple(repo):
    d = os.path.join(repo, "mchap", "tests", "test_io", "data")
    return {
        "name": "simple",
        "dir": d,
        "fasta": os.path.join(d, "simple.fasta"),
        "variants": os.path.join(d, "simple.vcf.gz"),
        "bed": os.path.join(d, "simple.bed"),
        "loci": [("CHR1", 5, 25, "CHR1_05_25"), ("CHR1", 30, 50, "CHR1_30_50"), ("CHR2", 10, 30, "CHR2_10_30"), ("CHR3", 20, 40, "CHR3_20_40")],
        "samples": ["SAMPLE1", "SAMPLE2", "SAMPLE3"],
        "bams": {"SAMPLE%d" % i: os.path.join(d, "simple.sample%d.bam" % i) for i in (1, 2, 3)},
        "deep_bams": {"SAMPLE%d" % i: os.path.join(d, "simple.sample%d.deep.bam" % i) for i in (1, 2, 3)},
        "ploidy": {"SAMPLE1": 4, "SAMPLE2": 4, "SAMPLE3": 4},
    }


def md_tag(ref, seq):
    out = []
    run = 0
    for r, s in zip(ref, seq):
        if r == s:
            run += 1
        else:
            out.append(str(run))
            out.append(r)
            run = 0
    out.append(str(run))
    return "".join(out)


def generate(outdir, seed, n_samples=None, n_loci=None, multi_sample_bam=None, bad_locus=None):
    """Write a dataset under outdir; returns its description dict.

    bad_locus: index of a locus whose alignments (first sample) carry an MD tag whose
    reference base contradicts the SNV file -> extract_read_variants raises there.
    """
    import pysam
    rng = random.Random(seed)
    os.makedirs(outdir, exist_ok=True)
    n_contigs = rng.choice([1, 2, 3])
    clen = 480
    contigs = ["CTG%d" % (i + 1) for i in range(n_contigs)]
    ref = {c: "".join(rng.choice(BASES) for _ in range(clen)) for c in contigs}
    fasta = os.path.join(outdir, "ref.fasta")
    with open(fasta, "w") as f:
        for c in contigs:
            f.write(">%s\n%s\n" % (c, ref[c]))
    pysam.faidx(fasta)

    n_loci = n_loci or rng.choice([3, 4, 5, 6, 8, 3, 4, 5, 6, 8, 1, 2, 14])
    n_samples = n_samples or rng.choice([3, 3, 4, 5, 3, 3, 4, 5, 2, 6])
    samples = ["S%02d" % (i + 1) for i in range(n_samples)]
    ploidy = {s: rng.choice([2, 4, 4]) for s in samples}
    if rng.random() < 0.5:
        p = rng.choice([2, 4])
        ploidy = {s: p for s in samples}

    # loci: non-overlapping intervals
    loci = []
    slots = [(c, st) for c in contigs for st in range(5, clen - 45, 45)]
    rng.shuffle(slots)
    slots = sorted(slots[:n_loci])
    for k, (c, st) in enumerate(slots):
        ln = rng.choice([20, 25, 30, 36])
        loci.append((c, st, st + ln, "L%02d_%s_%d" % (k, c, st)))
    # SNVs
    snvs = {}  # (contig, pos0) -> [ref, alts...]
    locus_snvs = []
    for k, (c, a, b, name) in enumerate(loci):
        n = rng.choice([0, 1, 2, 2, 3, 4]) if k > 0 else rng.choice([1, 2, 3])
        pos = sorted(rng.sample(range(a, b), n))
        ls = []
        for p0 in pos:
            r = ref[c][p0]
            alts = [x for x in BASES if x != r]
            rng.shuffle(alts)
            alts = alts[: rng.choice([1, 1, 1, 2])]
            snvs[(c, p0)] = [r] + alts
            ls.append(p0)
        locus_snvs.append(ls)
    vcf = os.path.join(outdir, "snvs.vcf")
    with open(vcf, "w") as f:
        f.write("##fileformat=VCFv4.2\n")
        for c in contigs:
            f.write("##contig=<ID=%s,length=%d>\n" % (c, clen))
        f.write("#CHROM\tPOS\tID\tREF\tALT\tQUAL\tFILTER\tINFO\n")
        for (c, p0) in sorted(snvs):
            al = snvs[(c, p0)]
            f.write("%s\t%d\t.\t%s\t%s\t.\tPASS\t.\n" % (c, p0 + 1, al[0], ",".join(al[1:])))
    vcfgz = vcf + ".gz"
    pysam.tabix_compress(vcf, vcfgz, force=True)
    pysam.tabix_index(vcfgz, preset="vcf", force=True)
    bed = os.path.join(outdir, "targets.bed")
    with open(bed, "w") as f:
        for (c, a, b, name) in loci:
            f.write("%s\t%d\t%d\t%s\n" % (c, a, b, name))

    # true haplotypes and reads
    header = {"HD": {"VN": "1.5", "SO": "coordinate"}, "SQ": [{"SN": c, "LN": clen} for c in contigs]}
    multi = rng.random() < 0.35 if multi_sample_bam is None else multi_sample_bam
    groups = [samples] if multi else [[s] for s in samples]
    # read-group IDs are only unique WITHIN a file: in a third of the one-sample-per-file datasets every file uses the same IDs
    # (RG1, RG2) for its own sample, as files written by the same pipeline do (separate generator: the other draws are unchanged)
    shared_ids = (not multi) and random.Random(seed ^ 0x5A17).random() < 0.33
    bams = {}
    rg_ids = {}  # read-group ID -> (sample, bam path), for --read-group-field ID
    qn = 0
    for gi, group in enumerate(groups):
        rgs = []
        for s in group:
            for r in range(rng.choice([1, 2])):
                rgs.append({"ID": ("RG%d" % (r + 1)) if shared_ids else ("RG%d_%s" % (r + 1, s)), "SM": s, "LB": "lib", "PL": "Illumina", "PU": "u"})
        hdr = dict(header)
        hdr["RG"] = rgs
        recs = []
        for s in group:
            srg = [rg["ID"] for rg in rgs if rg["SM"] == s]
            for k, (c, a, b, name) in enumerate(loci):
                depth = rng.choice([0, 2, 4, 6, 8, 12])
                pl = ploidy[s]
                nh = rng.choice([1, 2, min(3, pl)])
                haps = []
                for _ in range(nh):
                    h = {}
                    for p0 in locus_snvs[k]:
                        al = snvs[(c, p0)]
                        h[p0] = al[0] if rng.random() < 0.5 else rng.choice(al)
                    haps.append(h)
                is_bad = bad_locus is not None and k == bad_locus and s == samples[0]
                if is_bad and depth == 0:
                    depth = 2
                for r in range(depth):
                    h = rng.choice(haps)
                    rl = rng.choice([20, 24, 30])
                    st = max(0, min(clen - rl, rng.randint(a - rl // 2, b - rl // 2)))
                    paired = rng.random() < 0.25
                    qn += 1
                    qname = "R%06d" % qn
                    starts = [st] + ([min(clen - rl, st + rng.randint(0, 10))] if paired else [])
                    for mi, s0 in enumerate(starts):
                        seq = list(ref[c][s0 : s0 + rl])
                        for p0, base in h.items():
                            if s0 <= p0 < s0 + rl:
                                seq[p0 - s0] = base if rng.random() < 0.97 else rng.choice(BASES)
                        seq = "".join(seq)
                        rseq = ref[c][s0 : s0 + rl]
                        md = md_tag(rseq, seq)
                        if is_bad and r == 0 and mi == 0 and locus_snvs[k]:
                            # contradict the reference at the first covered SNV of this locus
                            cov = [p0 for p0 in locus_snvs[k] if s0 <= p0 < s0 + rl]
                            if not cov:
                                p0 = locus_snvs[k][0]
                                s0 = max(0, min(clen - rl, p0 - 3))
                                seq = ref[c][s0 : s0 + rl]
                                rseq = seq
                                cov = [p0]
                            p0 = cov[0]
                            wrong = [x for x in BASES if x != rseq[p0 - s0]][0]
                            fake_ref = rseq[: p0 - s0] + wrong + rseq[p0 - s0 + 1 :]
                            # read shows the true reference base, MD claims another reference base there
                            md = md_tag(fake_ref, seq)
                        seg = pysam.AlignedSegment()
                        seg.query_name = qname
                        seg.query_sequence = seq
                        seg.flag = 0 if not paired else (0x1 | 0x2 | (0x40 if mi == 0 else 0x80))
                        seg.reference_id = contigs.index(c)
                        seg.reference_start = s0
                        seg.mapping_quality = rng.choice([60, 60, 60, 30])
                        seg.cigartuples = [(0, rl)]
                        seg.query_qualities = pysam.qualitystring_to_array("I" * rl)
                        seg.set_tag("RG", rng.choice(srg))
                        seg.set_tag("MD", md)
                        if paired:
                            seg.next_reference_id = seg.reference_id
                            seg.next_reference_start = starts[1 - mi]
                        recs.append((seg.reference_id, s0, qn, mi, seg))
        recs.sort(key=lambda t: t[:4])
        path = os.path.join(outdir, "g%d.bam" % gi)
        with pysam.AlignmentFile(path, "wb", header=hdr) as out:
            for _, _, _, _, seg in recs:
                out.write(seg)
        pysam.index(path)
        for s in group:
            bams[s] = path
        for rg in rgs:
            if not shared_ids:  # (with shared IDs a read group is no unit of its own: --read-group-field ID is not used there)
                rg_ids[rg["ID"]] = (rg["SM"], path)
    ploidy_file = os.path.join(outdir, "ploidy.txt")
    with open(ploidy_file, "w") as f:
        for s in samples:
            f.write("%s\t%d\n" % (s, ploidy[s]))
    return {
        "name": "synthetic-%d" % seed,
        "dir": outdir,
        "fasta": fasta,
        "variants": vcfgz,
        "bed": bed,
        "loci": loci,
        "locus_snvs": locus_snvs,
        "snv_alleles": {"%s:%d" % k: v for k, v in snvs.items()},
        "ref": ref,
        "samples": samples,
        "bams": bams,
        "rg_ids": rg_ids,
        "bam_files": sorted(set(bams.values())),
        "ploidy": ploidy,
        "ploidy_file": ploidy_file,
        "bad_locus": bad_locus,
        "multi_sample_bam": multi,
        "shared_read_group_ids": shared_ids,
    }


def generate_cohort(outdir, seed, n_samples=40):
    """One locus with 8 bi-allelic SNVs and a LARGE cohort: n_samples tetraploids in one multi-sample BAM, every sample with four
    haplotypes that no other sample carries, deep error-free full-length reads.  The run's population allele list then holds far
    more than 127 ALT haplotypes (n_samples x 4): whatever numbers, indexes or counts alleles must not depend on the cohort size."""
    import pysam
    rng = random.Random(seed)
    os.makedirs(outdir, exist_ok=True)
    clen = 200
    c = "CTG1"
    ref = {c: "".join(rng.choice(BASES) for _ in range(clen))}
    fasta = os.path.join(outdir, "ref.fasta")
    with open(fasta, "w") as f:
        f.write(">%s\n%s\n" % (c, ref[c]))
    pysam.faidx(fasta)
    a, b = 60, 90
    name = "L00_%s_%d" % (c, a)
    loci = [(c, a, b, name)]
    pos = sorted(rng.sample(range(a + 1, b - 1), 8))
    snvs = {}
    for p0 in pos:
        r = ref[c][p0]
        snvs[(c, p0)] = [r, rng.choice([x for x in BASES if x != r])]
    vcf = os.path.join(outdir, "snvs.vcf")
    with open(vcf, "w") as f:
        f.write("##fileformat=VCFv4.2\n##contig=<ID=%s,length=%d>\n#CHROM\tPOS\tID\tREF\tALT\tQUAL\tFILTER\tINFO\n" % (c, clen))
        for p0 in pos:
            al = snvs[(c, p0)]
            f.write("%s\t%d\t.\t%s\t%s\t.\tPASS\t.\n" % (c, p0 + 1, al[0], al[1]))
    vcfgz = vcf + ".gz"
    pysam.tabix_compress(vcf, vcfgz, force=True)
    pysam.tabix_index(vcfgz, preset="vcf", force=True)
    bed = os.path.join(outdir, "targets.bed")
    with open(bed, "w") as f:
        f.write("%s\t%d\t%d\t%s\n" % (c, a, b, name))
    samples = ["S%02d" % (i + 1) for i in range(n_samples)]
    codes = list(range(1, 256))  # every non-reference combination of the 8 SNVs
    rng.shuffle(codes)
    header = {"HD": {"VN": "1.5", "SO": "coordinate"}, "SQ": [{"SN": c, "LN": clen}],
              "RG": [{"ID": "RG_%s" % s, "SM": s, "LB": "lib", "PL": "Illumina", "PU": "u"} for s in samples]}
    path = os.path.join(outdir, "cohort.bam")
    qn = 0
    with pysam.AlignmentFile(path, "wb", header=header) as out:
        for i, s in enumerate(samples):
            for code in codes[4 * i: 4 * i + 4]:
                seq = list(ref[c][a:b])
                for k, p0 in enumerate(pos):
                    if code >> k & 1:
                        seq[p0 - a] = snvs[(c, p0)][1]
                seq = "".join(seq)
                for _ in range(12):
                    qn += 1
                    seg = pysam.AlignedSegment()
                    seg.query_name = "R%06d" % qn
                    seg.query_sequence = seq
                    seg.flag = 0
                    seg.reference_id = 0
                    seg.reference_start = a
                    seg.mapping_quality = 60
                    seg.cigartuples = [(0, b - a)]
                    seg.query_qualities = pysam.qualitystring_to_array("I" * (b - a))
                    seg.set_tag("RG", "RG_%s" % s)
                    seg.set_tag("MD", md_tag(ref[c][a:b], seq))
                    out.write(seg)
    pysam.index(path)
    ploidy = {s: 4 for s in samples}
    ploidy_file = os.path.join(outdir, "ploidy.txt")
    with open(ploidy_file, "w") as f:
        for s in samples:
            f.write("%s\t%d\n" % (s, 4))
    return {"name": "cohort-%d" % seed, "dir": outdir, "fasta": fasta, "variants": vcfgz, "bed": bed, "loci": loci, "locus_snvs": [pos],
            "snv_alleles": {"%s:%d" % k: v for k, v in snvs.items()}, "ref": ref, "samples": samples, "bams": {s: path for s in samples},
            "rg_ids": {}, "bam_files": [path], "ploidy": ploidy, "ploidy_file": ploidy_file, "bad_locus": None, "multi_sample_bam": True,
            "shared_read_group_ids": False}


def write_bed(path, loci):
    with open(path, "w") as f:
        for (c, a, b, name) in loci:
            if name is None:
                f.write("%s\t%d\t%d\n" % (c, a, b))  # BED3 line: no name
            else:
                f.write("%s\t%d\t%d\t%s\n" % (c, a, b, name))
    return path


def write_vcf_subset(path, header_lines, record_lines):
    with open(path, "w") as f:
        for l in header_lines:
            f.write(l + "\n")
        for l in record_lines:
            f.write(l + "\n")
    return path
