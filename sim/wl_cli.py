"""Command-line wiring workloads (engine K).

The real programs `mchap call`, `mchap call-exact` and `mchap assemble` run end to end, in process, single core,
interpreted, on real FASTA / VCF / BAM files written for the run from a data seed.  The simulator substitutes the
sampler classes / exact routines the programs look up in their own module namespace by recording subclasses /
wrappers that call through to the real code, so it sees exactly what each program hands to its numerical core
and what comes back.

Oracles compare that with what the command line and the input files said, computed independently:
the target distribution implied by the arguments (refmodel) vs the target implied by the inputs.
"""
import contextlib
import io
import math
import os
import shutil
import tempfile
import warnings

from . import datasets
from . import refmodel as ref
from .core import HarnessError, Violation
from .engine_k import Seams, bootstrap

_APP = {}


def bootstrap_app():
    if _APP:
        return _APP
    m = bootstrap()
    from mchap.application import assemble, baseclass, call, call_exact, call_pedigree
    from mchap.calling import prior as cprior
    from mchap.calling import exact as cexact

    # baseclass turns RuntimeWarning into an error at import; interpreted numpy code warns where compiled code does not
    warnings.resetwarnings()
    warnings.filterwarnings("ignore")

    def lgamma(x):
        # numba's lgamma returns +inf at a pole where math.lgamma raises (interpretive-mode artefact)
        if x <= 0 and float(x).is_integer():
            return math.inf
        return math.lgamma(x)

    cprior.lgamma = lgamma
    _APP.update(m)
    _APP.update(app_call_pedigree=call_pedigree, app_assemble=assemble, app_call=call, app_call_exact=call_exact, app_baseclass=baseclass, cprior=cprior, cexact=cexact)
    return _APP


def run_program(name, argv):
    m = bootstrap_app()
    mod = {"call": m["app_call"], "call-exact": m["app_call_exact"], "assemble": m["app_assemble"], "call-pedigree": m["app_call_pedigree"]}[name]
    try:
        prog = mod.program.cli(["mchap", name] + [str(a) for a in argv])
    except SystemExit as e:
        raise HarnessError("argument parser rejected the simulated command line: %r" % (argv,)) from e
    buf = io.StringIO()
    with contextlib.redirect_stdout(buf), contextlib.redirect_stderr(io.StringIO()):
        prog.run_stdout()
    return buf.getvalue()


def parse_vcf(text):
    """-> (samples, [record dict])"""
    samples = []
    recs = []
    for line in text.splitlines():
        if line.startswith("##"):
            continue
        f = line.split("\t")
        if line.startswith("#"):
            samples = f[9:]
            continue
        keys = f[8].split(":")
        recs.append({
            "chrom": f[0], "pos": int(f[1]), "id": f[2], "ref": f[3], "alts": [] if f[4] == "." else f[4].split(","),
            "filter": f[6], "info": f[7],
            "samples": {s: dict(zip(keys, v.split(":"))) for s, v in zip(samples, f[9:])},
        })
    return samples, recs


class Workdir:
    def __init__(self):
        self.path = tempfile.mkdtemp(prefix="verif-cli-")

    def __enter__(self):
        return self.path

    def __exit__(self, *a):
        shutil.rmtree(self.path, ignore_errors=True)


def gen_dataset_config(rng, tier):
    return {
        "data_seed": rng.randrange(1 << 30),
        "n_loci": rng.choice([1, 1, 2, 2, 3]),
        "n_samples": rng.choice([1, 2, 2, 3]),
        "multi_sample_bam": rng.random() < 0.3,
        "inbreeding_mode": rng.choice(["none", "scalar", "file", "file"]),
        "inbreeding_values": [rng.choice([0.0, 0.01, 0.1, 0.25, 0.5, 0.9]) for _ in range(3)],
    }


def make_dataset(cfg, tmp):
    ds = datasets.generate(os.path.join(tmp, "ds"), cfg["data_seed"], n_samples=cfg["n_samples"], n_loci=cfg["n_loci"],
                           multi_sample_bam=cfg["multi_sample_bam"])
    return ds


def sample_args(cfg, ds, tmp):
    """Common --bam / --ploidy / --inbreeding arguments and the per-sample values they mean."""
    argv = ["--bam"] + ds["bam_files"] + ["--ploidy", ds["ploidy_file"]]
    inb = {s: 0.0 for s in ds["samples"]}
    mode = cfg["inbreeding_mode"]
    if mode == "scalar":
        v = cfg["inbreeding_values"][0]
        inb = {s: v for s in ds["samples"]}
        argv += ["--inbreeding", repr(v)]
    elif mode == "file":
        path = os.path.join(tmp, "inbreeding.txt")
        with open(path, "w") as f:
            for i, s in enumerate(ds["samples"]):
                v = cfg["inbreeding_values"][i % len(cfg["inbreeding_values"])]
                inb[s] = v
                f.write("%s\t%r\n" % (s, v))
        argv += ["--inbreeding", path]
    return argv, dict(ds["ploidy"]), inb


# ---------------------------------------------------------------- call / call-exact

def gen_call_config(rng, tier):
    cfg = {"flavor": "cli"}
    cfg.update(gen_dataset_config(rng, tier))
    cfg.update({
        "hap_seed": rng.randrange(1 << 30),
        "max_alts": rng.choice([1, 2, 3, 4, 5]),
        "use_afp": rng.random() < 0.8,
        "zero_rate": rng.choice([0.0, 0.2, 0.4, 0.6]),
        "tiny_rate": rng.choice([0.0, 0.0, 0.2, 0.4]),
        "refmasked_rate": rng.choice([0.0, 0.0, 0.3, 1.0]),
        "mcmc_steps": rng.choice([12, 20, 40]),
        "mcmc_burn": rng.choice([0, 3, 6]),
        "mcmc_chains": rng.choice([1, 2, 3]),
        "mcmc_seed": rng.randrange(1, 1 << 20),
        "report_gp": rng.random() < 0.5,
        # --filter-input-haplotypes AFP>=x ; x never equals a 3-decimal AFP value
        "allele_filter": rng.choice([None, None, None, 0.0995, 0.1505, 0.3005]),
    })
    return cfg


def filter_args(cfg):
    if cfg.get("allele_filter") is None:
        return []
    return ["--filter-input-haplotypes", "AFP>=%r" % cfg["allele_filter"]]


def effective_loci(cfg, loci):
    """What the records mean after --filter-input-haplotypes: ALT alleles failing the filter are removed (the remaining ones are
    renumbered), a reference allele failing it is masked instead."""
    thr = cfg.get("allele_filter")
    if thr is None:
        return loci
    import numpy as np
    out = []
    for l in loci:
        keep = [float(np.float32(x)) >= thr for x in l["afp"]]
        masked = l["masked"] or not keep[0]
        keep[0] = True
        out.append({"name": l["name"], "seqs": [q for q, k in zip(l["seqs"], keep) if k], "afp": [x for x, k in zip(l["afp"], keep) if k], "masked": masked})
    return out


def write_haplotype_vcf(cfg, ds, path):
    """Known-haplotype VCF: per locus the reference sequence plus distinct ALT sequences differing at the locus'
    SNV positions; AFP values (3 decimals, some exactly zero).  Returns the per-locus description."""
    import random
    rng = random.Random(cfg["hap_seed"])
    out = []
    lines = ["##fileformat=VCFv4.3"]
    contigs = sorted(ds["ref"])
    for c in contigs:
        lines.append("##contig=<ID=%s,length=%d>" % (c, len(ds["ref"][c])))
    lines.append('##INFO=<ID=AFP,Number=R,Type=Float,Description="prior allele frequencies">')
    lines.append('##INFO=<ID=REFMASKED,Number=0,Type=Flag,Description="Reference allele is masked">')
    lines.append("#CHROM\tPOS\tID\tREF\tALT\tQUAL\tFILTER\tINFO")
    for k, (c, a, b, name) in enumerate(ds["loci"]):
        refseq = ds["ref"][c][a:b]
        pos = ds["locus_snvs"][k]
        alts = []
        if pos:
            want = rng.randint(1, cfg["max_alts"])
            tries = 0
            while len(alts) < want and tries < 40:
                tries += 1
                seq = list(refseq)
                for p0 in pos:
                    al = ds["snv_alleles"]["%s:%d" % (c, p0)]
                    seq[p0 - a] = al[0] if rng.random() < 0.5 else rng.choice(al)
                seq = "".join(seq)
                if seq != refseq and seq not in alts:
                    alts.append(seq)
        n = 1 + len(alts)
        raw = [rng.choice([1, 2, 3, 5, 8, 13]) for _ in range(n)]
        for i in range(n):
            if rng.random() < cfg["zero_rate"]:
                raw[i] = 0
        tot = sum(raw)
        afp = [round(x / tot, 3) if tot else 0.0 for x in raw]
        for i in range(n):
            # a tiny but positive prior frequency is not zero: the allele stays in the model
            if afp[i] > 0 and rng.random() < cfg.get("tiny_rate", 0.0):
                afp[i] = rng.choice([5e-09, 1e-09, 2e-07])
        masked = rng.random() < cfg["refmasked_rate"]
        info = []
        if masked:
            info.append("REFMASKED")
        info.append("AFP=" + ",".join("%g" % x for x in afp))
        lines.append("\t".join([c, str(a + 1), name, refseq, ",".join(alts) if alts else ".", ".", ".", ";".join(info)]))
        out.append({"name": name, "seqs": [refseq] + alts, "afp": afp, "masked": masked})
    with open(path, "w") as f:
        f.write("\n".join(lines) + "\n")
    return out


def encode_sequences(seqs):
    """Independent integer coding of haplotype sequences: variable columns only, alleles numbered by first appearance."""
    cols = [j for j in range(len(seqs[0])) if any(s[j] != seqs[0][j] for s in seqs)]
    rows = [[] for _ in seqs]
    for j in cols:
        order = []
        for s in seqs:
            if s[j] not in order:
                order.append(s[j])
        for i, s in enumerate(seqs):
            rows[i].append(order.index(s[j]))
    return [tuple(r) for r in rows]


def expected_prior(locus, use_afp):
    """-> {vcf allele index: normalised prior frequency > 0} or None if the record has no usable allele."""
    import numpy as np
    n = len(locus["seqs"])
    # htslib stores VCF INFO Float values in single precision
    f = [float(np.float32(x)) for x in locus["afp"]] if use_afp else [1.0 / n] * n
    if locus["masked"]:
        f[0] = 0.0
    tot = sum(f)
    if tot <= 0:
        return None
    return {i: x / tot for i, x in enumerate(f) if x > 0}


def target(reads, counts, rows, prior, ploidy, inbreeding):
    """Exact posterior over multisets of VCF allele indices.  rows: {allele index: integer coded haplotype};
    prior: {allele index: frequency}.  -> {sorted tuple of allele indices: probability}"""
    idx = sorted(prior)
    haps = [list(rows[i]) for i in idx]
    freqs = [prior[i] for i in idx]
    tot = sum(freqs)
    freqs = [x / tot for x in freqs]
    gens, post = ref.exact_call_posterior(reads, counts, haps, ploidy, freqs, inbreeding)
    return {tuple(sorted(idx[a] for a in g)): p for g, p in zip(gens, post)}


def compare_targets(got, want, tol=1e-9):
    worst = None
    for g in set(got) | set(want):
        a = got.get(g, 0.0)
        b = want.get(g, 0.0)
        if a != a or b != b:
            return (g, a, b)
        if abs(a - b) > tol and (worst is None or abs(a - b) > abs(worst[1] - worst[2])):
            worst = (g, a, b)
    return worst


def reads_as_lists(np, reads, counts):
    reads = np.asarray(reads, dtype=float)
    rl = reads.tolist()
    cl = None if counts is None else [int(c) for c in np.asarray(counts)]
    return rl, cl


def run_call_cli(ctx):
    """C02: `mchap call` and `mchap call-exact` on the same input target the same exact posterior, and it is the
    posterior of the inputs given on the command line."""
    m = bootstrap_app()
    np = m["np"]
    cfg = ctx.config
    call_mod, exact_mod = m["app_call"], m["app_call_exact"]
    with Workdir() as tmp:
        ds = make_dataset(cfg, tmp)
        hv = os.path.join(tmp, "haplotypes.vcf")
        loci = effective_loci(cfg, write_haplotype_vcf(cfg, ds, hv))
        by_name = {l["name"]: l for l in loci}
        argv, ploidy, inb = sample_args(cfg, ds, tmp)
        argv += ["--haplotypes", hv] + filter_args(cfg)
        if cfg["use_afp"]:
            argv += ["--prior-frequencies", "AFP"]
        cur = {}
        call_recs = []
        exact_recs = []
        real_mcmc = call_mod.CallingMCMC

        class RecMCMC(real_mcmc):
            def fit(self, reads, read_counts=None, **kw):
                tr = real_mcmc.fit(self, reads, read_counts=read_counts, **kw)
                k = cur["n"]
                cur["n"] += 1
                call_recs.append({"locus": cur["locus"], "sample": cur["samples"][k] if k < len(cur["samples"]) else None,
                                  "ploidy": int(self.ploidy), "haplotypes": np.array(self.haplotypes).tolist(),
                                  "frequencies": None if self.frequencies is None else [float(x) for x in self.frequencies],
                                  "inbreeding": float(self.inbreeding), "steps": int(self.steps), "chains": int(self.chains),
                                  "seed": self.random_seed, "reads": np.array(reads), "counts": None if read_counts is None else np.array(read_counts),
                                  "trace": np.array(tr.genotypes)})
                return tr

        def ctx_wrapper(real):
            def call_sample_genotypes(self, data):
                cur["locus"] = data.locus.name
                cur["samples"] = list(data.samples)
                cur["n"] = 0
                return real(self, data)
            return call_sample_genotypes

        real_gl, real_gp, real_pm = exact_mod.genotype_likelihoods, exact_mod.genotype_posteriors, exact_mod.posterior_mode

        def w_gl(reads, ploidy, haplotypes, read_counts=None):
            cur["gl"] = {"reads": np.array(reads), "counts": None if read_counts is None else np.array(read_counts),
                         "haplotypes": np.array(haplotypes).tolist(), "ploidy": int(ploidy)}
            return real_gl(reads=reads, ploidy=ploidy, haplotypes=haplotypes, read_counts=read_counts)

        def w_gp(log_likelihoods, ploidy, n_alleles, inbreeding=0, frequencies=None):
            out = real_gp(log_likelihoods=log_likelihoods, ploidy=ploidy, n_alleles=n_alleles, inbreeding=inbreeding, frequencies=frequencies)
            gl = cur.pop("gl", None)
            if gl is None:
                raise HarnessError("genotype_posteriors without a preceding genotype_likelihoods call")
            k = cur["n"]
            cur["n"] += 1
            rec = dict(gl, locus=cur["locus"], sample=cur["samples"][k] if k < len(cur["samples"]) else None, inbreeding=float(inbreeding),
                       frequencies=None if frequencies is None else [float(x) for x in frequencies], ploidy2=int(ploidy), n_alleles=int(n_alleles),
                       probabilities=[float(x) for x in out], via="arrays")
            exact_recs.append(rec)
            return out

        def w_pm(reads, ploidy, haplotypes, read_counts=None, inbreeding=0, frequencies=None, **kw):
            out = real_pm(reads=reads, ploidy=ploidy, haplotypes=haplotypes, read_counts=read_counts, inbreeding=inbreeding, frequencies=frequencies, **kw)
            k = cur["n"]
            cur["n"] += 1
            exact_recs.append({"reads": np.array(reads), "counts": None if read_counts is None else np.array(read_counts),
                               "haplotypes": np.array(haplotypes).tolist(), "ploidy": int(ploidy), "ploidy2": int(ploidy), "n_alleles": len(haplotypes),
                               "locus": cur["locus"], "sample": cur["samples"][k] if k < len(cur["samples"]) else None,
                               "inbreeding": float(inbreeding), "frequencies": None if frequencies is None else [float(x) for x in frequencies],
                               "probabilities": None, "via": "mode"})
            return out

        with Seams() as seams:
            seams.set(call_mod, "CallingMCMC", RecMCMC)
            seams.set(call_mod.program, "call_sample_genotypes", ctx_wrapper(call_mod.program.call_sample_genotypes))
            seams.set(exact_mod.program, "call_sample_genotypes", ctx_wrapper(exact_mod.program.call_sample_genotypes))
            seams.set(exact_mod, "genotype_likelihoods", w_gl)
            seams.set(exact_mod, "genotype_posteriors", w_gp)
            seams.set(exact_mod, "posterior_mode", w_pm)
            out_call = run_program("call", argv + ["--mcmc-steps", cfg["mcmc_steps"], "--mcmc-burn", cfg["mcmc_burn"],
                                                   "--mcmc-chains", cfg["mcmc_chains"], "--mcmc-seed", cfg["mcmc_seed"]]
                                   + (["--report", "GP"] if cfg["report_gp"] else []))
            out_exact = run_program("call-exact", argv + (["--report", "GP"] if cfg["report_gp"] else []))
        ctx.log.add("cli", "call", len(call_recs), len(exact_recs))

        # expected targets per (locus, sample)
        s_call, r_call = parse_vcf(out_call)
        s_exact, r_exact = parse_vcf(out_exact)
        if len(r_call) != len(loci) or len(r_exact) != len(loci):
            raise Violation("cli_records", "programs wrote %d / %d records for %d input records" % (len(r_call), len(r_exact), len(loci)), step=0)
        usable = [l for l in loci if expected_prior(l, cfg["use_afp"]) is not None]
        n_expected = len(usable) * len(ds["samples"])
        if len(call_recs) != n_expected:
            raise Violation("cli_sampler_runs", "mchap call ran its sampler %d times; %d usable records x %d samples" % (len(call_recs), len(usable), len(ds["samples"])), step=0)
        # call-exact treats only NaN frequencies (nothing left) and a lone masked reference as unusable
        if len(exact_recs) != n_expected:
            raise Violation("cli_sampler_runs", "mchap call-exact evaluated %d posteriors; %d usable records x %d samples" % (len(exact_recs), len(usable), len(ds["samples"])), step=0)

        def implied(rec, rows_expected):
            lookup = {r: i for i, r in enumerate(rows_expected)}
            rows = {}
            prior = {}
            haps = [tuple(int(a) for a in h) for h in rec["haplotypes"]]
            fr = rec["frequencies"] if rec["frequencies"] is not None else [1.0 / len(haps)] * len(haps)
            if len(fr) != len(haps):
                raise Violation("cli_target", "%d prior frequencies handed over for %d haplotypes (%s, %s)" % (len(fr), len(haps), rec["locus"], rec["sample"]), step=0)
            for h, x in zip(haps, fr):
                if h not in lookup:
                    raise Violation("cli_target", "a haplotype handed to the numerical core is not one of the input record's alleles (%s)" % rec["locus"], step=0)
                i = lookup[h]
                rows[i] = h
                if x != x:
                    raise Violation("cli_target", "NaN prior frequency handed to the numerical core (%s, %s)" % (rec["locus"], rec["sample"]), step=0)
                if x > 0:
                    prior[i] = prior.get(i, 0.0) + x
            return rows, prior

        done = 0
        for which, recs in (("call", call_recs), ("call-exact", exact_recs)):
            for rec in recs:
                l = by_name[rec["locus"]]
                s = rec["sample"]
                rows_expected = encode_sequences(l["seqs"])
                want_prior = expected_prior(l, cfg["use_afp"])
                rl, cl = reads_as_lists(np, rec["reads"], rec["counts"])
                if rec["ploidy"] != ploidy[s] or rec.get("ploidy2", rec["ploidy"]) != ploidy[s]:
                    raise Violation("cli_target", "mchap %s used ploidy %r for sample %s whose ploidy is %d" % (which, rec["ploidy"], s, ploidy[s]), step=0)
                rows, prior = implied(rec, rows_expected)
                if not prior:
                    raise Violation("cli_target", "mchap %s handed no allele with positive prior to its numerical core (%s)" % (which, rec["locus"]), step=0)
                got = target(rl, cl, rows, prior, rec["ploidy"], rec["inbreeding"])
                want = target(rl, cl, {i: rows_expected[i] for i in want_prior}, want_prior, ploidy[s], inb[s])
                bad = compare_targets(got, want)
                if bad is not None:
                    raise Violation("cli_target",
                                    "mchap %s: the posterior implied by what the program handed to its numerical core differs from the exact posterior of the command line inputs "
                                    "(locus %s, sample %s): genotype %r has %.6g, expected %.6g" % (which, rec["locus"], s, bad[0], bad[1], bad[2]),
                                    step=0, detail={"program": which, "handed_frequencies": rec["frequencies"], "handed_inbreeding": rec["inbreeding"],
                                                    "input_afp": l["afp"], "masked": l["masked"], "use_afp": cfg["use_afp"], "inbreeding": inb[s]})
                rec["want"] = want
                done += 1
                if any(x == 0 for x in (l["afp"] if cfg["use_afp"] else [])):
                    ctx.counters.inc("cli_zero_frequency_allele")
                if any(0 < x < 1e-6 for x in (l["afp"] if cfg["use_afp"] else [])):
                    ctx.counters.inc("cli_tiny_frequency_allele")
                if l["masked"]:
                    ctx.counters.inc("cli_reference_masked")
                if rec.get("probabilities") is not None:
                    # the array the exact routine returned, in VCF genotype order over all record alleles
                    gens = ref.all_genotypes(rec["n_alleles"], rec["ploidy"])
                    gens = [gens[i] for i in ref.vcf_order(gens)]
                    if len(gens) != len(rec["probabilities"]):
                        raise Violation("cli_target", "call-exact posterior array has %d entries for %d genotypes" % (len(rec["probabilities"]), len(gens)), step=0)
                    lookup = {r: i for i, r in enumerate(rows_expected)}
                    amap = [lookup[tuple(int(a) for a in h)] for h in rec["haplotypes"]]
                    got2 = {}
                    for g, p in zip(gens, rec["probabilities"]):
                        key = tuple(sorted(amap[a] for a in g))
                        got2[key] = got2.get(key, 0.0) + p
                    # the full-array path of call-exact keeps likelihoods in single precision
                    bad = compare_targets(got2, want, tol=1e-3)
                    if bad is not None:
                        raise Violation("cli_exact_posterior", "the posterior call-exact enumerated differs from the independent exact posterior (locus %s, sample %s): %r %.6g vs %.6g"
                                        % (rec["locus"], s, bad[0], bad[1], bad[2]), step=0)
                    ctx.counters.inc("cli_exact_array_compared")
        ctx.counters.inc("cli_targets_compared", done)
        if cfg.get("allele_filter") is not None:
            ctx.counters.inc("cli_allele_filter")

        # reported genotypes: whatever rule a program uses to select the genotype it prints, the probability printed next to it must
        # be that genotype's probability - under the enumeration (call-exact) or in the retained trace (call) - with the
        # genotype read through the OUTPUT record's own allele sequences (so a shifted / mis-mapped allele label shows)
        for which, recs, parsed in (("call", call_recs, r_call), ("call-exact", exact_recs, r_exact)):
            by = {(r["locus"], r["sample"]): r for r in recs}
            for vr in parsed:
                l = by_name[vr["id"]]
                out_seqs = [vr["ref"]] + vr["alts"]
                for s in ds["samples"]:
                    rec = by.get((vr["id"], s))
                    gt = vr["samples"][s]["GT"]
                    if rec is None:
                        if "." not in gt:
                            raise Violation("cli_labels", "mchap %s reports genotype %s for a record with no usable allele" % (which, gt), step=0)
                        continue
                    try:
                        called = [out_seqs[int(a)] for a in gt.replace("|", "/").split("/")]
                        key = tuple(sorted(l["seqs"].index(q) for q in called))
                    except (ValueError, IndexError):
                        raise Violation("cli_labels", "mchap %s reports GT %s for %s / %s, which does not spell alleles of the input record" % (which, gt, vr["id"], s), step=0)
                    gpm = float(vr["samples"][s]["GPM"])
                    if which == "call-exact":
                        want_p = rec["want"].get(key, 0.0)
                    else:
                        tr = rec["trace"][:, cfg["mcmc_burn"]:]
                        lookup = {r: i for i, r in enumerate(encode_sequences(l["seqs"]))}
                        amap = [lookup[tuple(int(a) for a in h)] for h in rec["haplotypes"]]
                        n = tot = 0
                        for chain in tr:
                            for g in chain:
                                tot += 1
                                if tuple(sorted(amap[int(a)] for a in g)) == key:
                                    n += 1
                        want_p = n / tot
                        gp = vr["samples"][s].get("GP")
                        if gp not in (None, ".", ""):
                            # the G-ordered array over the OUTPUT record's alleles is the empirical distribution of the retained trace
                            vals = [float(x) if x != "." else float("nan") for x in gp.split(",")]
                            gens = ref.all_genotypes(len(out_seqs), rec["ploidy"])
                            gens = [gens[i] for i in ref.vcf_order(gens)]
                            if len(vals) != len(gens):
                                raise Violation("cli_labels", "mchap call prints %d GP values for %d alleles at ploidy %d (%s / %s)" % (len(vals), len(out_seqs), rec["ploidy"], vr["id"], s), step=0)
                            try:
                                omap = [out_seqs.index(q) for q in l["seqs"]]
                            except ValueError:
                                omap = None
                            if omap is not None:
                                emp = {}
                                for chain in tr:
                                    for g in chain:
                                        k2 = tuple(sorted(omap[amap[int(a)]] for a in g))
                                        emp[k2] = emp.get(k2, 0) + 1
                                for g, v in zip(gens, vals):
                                    w = emp.get(tuple(g), 0) / tot
                                    if not (abs(v - w) <= 0.0006):
                                        raise Violation("cli_labels", "mchap call prints GP=%r for genotype %s of %s / %s; it holds %.6f of the retained trace"
                                                        % (v, "/".join(str(a) for a in g), vr["id"], s, w), step=0, detail={"masked": l["masked"], "afp": l["afp"]})
                                ctx.counters.inc("cli_gp_arrays_compared")
                    if abs(gpm - want_p) > 0.0006:
                        raise Violation("cli_labels", "mchap %s reports GT %s with GPM %r for %s / %s; the genotype these alleles spell has probability %.6f in its own %s"
                                        % (which, gt, gpm, vr["id"], s, want_p, "enumeration" if which == "call-exact" else "retained trace"), step=0,
                                        detail={"masked": l["masked"], "afp": l["afp"], "genotype": list(key)})
                    ctx.counters.inc("cli_genotypes_compared")
        ctx.key("cli-call", cfg["use_afp"], tuple((tuple(l["afp"]), l["masked"]) for l in loci), tuple(sorted(ploidy.values())), tuple(sorted(inb.values())))


# ---------------------------------------------------------------- assemble

def gen_assemble_config(rng, tier):
    cfg = {"flavor": "cli"}
    cfg.update(gen_dataset_config(rng, tier))
    cfg.update({
        "fix_homozygous": rng.choice([None, 0.51, 0.6, 0.75, 0.9, 0.99, 0.999, 0.9999, 1.0, 0.3, 0.45]),
        "mcmc_steps": rng.choice([6, 10, 16]),
        "mcmc_burn": rng.choice([0, 2]),
        "mcmc_chains": rng.choice([1, 2]),
        "mcmc_seed": rng.randrange(1, 1 << 20),
        "temperatures": rng.choice([None, None, [0.5], [0.2, 0.6]]),
        "mci_threshold": rng.choice([None, None, 0.3, 0.9]),
        "report_afp": rng.random() < 0.5,
    })
    return cfg


def run_assemble_cli(ctx, on_fit):
    """Runs `mchap assemble`; on_fit(rec) is called for every DenovoMCMC.fit the program performed with
    rec = {locus, sample, model (the DenovoMCMC instance), reads, counts, trace genotypes, inner: [sub-problem calls]}."""
    m = bootstrap_app()
    np = m["np"]
    cfg = ctx.config
    amod = m["app_assemble"]
    amcmc = m["amcmc"]
    with Workdir() as tmp:
        ds = make_dataset(cfg, tmp)
        argv, ploidy, inb = sample_args(cfg, ds, tmp)
        argv += ["--targets", ds["bed"], "--variants", ds["variants"], "--reference", ds["fasta"],
                 "--mcmc-steps", cfg["mcmc_steps"], "--mcmc-burn", cfg["mcmc_burn"], "--mcmc-chains", cfg["mcmc_chains"], "--mcmc-seed", cfg["mcmc_seed"]]
        if cfg["fix_homozygous"] is not None:
            argv += ["--mcmc-fix-homozygous", repr(cfg["fix_homozygous"])]
        if cfg["temperatures"]:
            argv += ["--mcmc-temperatures"] + [repr(t) for t in cfg["temperatures"]] + ["1.0"]
        if cfg.get("mci_threshold") is not None:
            argv += ["--mcmc-chain-incongruence-threshold", repr(cfg["mci_threshold"])]
        if cfg.get("report_afp"):
            argv += ["--report", "AFP", "AOP"]
        cur = {}
        recs = []
        real_cls = amod.DenovoMCMC
        real_denovo = amcmc._denovo_assembler

        def w_denovo(**kw):
            cur["inner"].append({"reads": np.array(kw["reads"]).copy(), "n_alleles": [int(a) for a in kw["n_alleles"]]})
            return real_denovo(**kw)

        class RecDenovo(real_cls):
            def fit(self, reads, read_counts=None, **kw):
                cur["inner"] = []
                if read_counts is not None and len(read_counts) == 0:
                    # interpretive-mode artefact: with no reads the compiled likelihood multiplies log(1) by an out-of-bounds
                    # count (harmless), plain Python raises IndexError; an empty count vector means the same as none
                    read_counts = None
                tr = real_cls.fit(self, reads, read_counts=read_counts, **kw)
                k = cur["n"]
                cur["n"] += 1
                recs.append({"locus": cur["locus"], "sample": cur["samples"][k] if k < len(cur["samples"]) else None, "model": self,
                             "reads": np.array(reads), "counts": None if read_counts is None else np.array(read_counts),
                             "trace": np.array(tr.genotypes), "inner": cur["inner"]})
                return tr

        real_csg = amod.program.call_sample_genotypes

        def call_sample_genotypes(self, data):
            cur["locus"] = data.locus.name
            cur["samples"] = list(data.samples)
            cur["n"] = 0
            return real_csg(self, data)

        with Seams() as seams:
            seams.set(amod, "DenovoMCMC", RecDenovo)
            seams.set(amcmc, "_denovo_assembler", w_denovo)
            seams.set(amod.program, "call_sample_genotypes", call_sample_genotypes)
            out = run_program("assemble", argv)
        ctx.log.add("cli", "assemble", len(recs))
        samples, parsed = parse_vcf(out)
        if len(recs) != len(ds["loci"]) * len(ds["samples"]):
            raise Violation("cli_sampler_runs", "mchap assemble fitted %d models for %d loci x %d samples" % (len(recs), len(ds["loci"]), len(ds["samples"])), step=0)
        index = {name: k for k, (_, _, _, name) in enumerate(ds["loci"])}
        for rec in recs:
            rec["ploidy"] = ploidy[rec["sample"]]
            rec["inbreeding"] = inb[rec["sample"]]
            k = index[rec["locus"]]
            c, a, b, _ = ds["loci"][k]
            rec["snv_alleles"] = [ds["snv_alleles"]["%s:%d" % (c, p0)] for p0 in ds["locus_snvs"][k]]
            rec["snv_offsets"] = [p0 - a for p0 in ds["locus_snvs"][k]]
            rec["refseq"] = ds["ref"][c][a:b]
            on_fit(rec)
        return ds, recs, parsed


def shrink_candidates(cfg):
    out = []

    def mod(**kw):
        c = dict(cfg)
        c.update(kw)
        if c != cfg:
            out.append(c)

    if cfg["n_loci"] > 1:
        mod(n_loci=cfg["n_loci"] - 1)
    if cfg["n_samples"] > 1:
        mod(n_samples=cfg["n_samples"] - 1)
    if cfg["multi_sample_bam"]:
        mod(multi_sample_bam=False)
    if cfg["inbreeding_mode"] != "none":
        mod(inbreeding_mode="none")
    if cfg.get("mcmc_chains", 1) > 1:
        mod(mcmc_chains=1)
    if cfg.get("mcmc_burn", 0) > 0:
        mod(mcmc_burn=0)
    if cfg.get("temperatures"):
        mod(temperatures=None)
    if cfg.get("refmasked_rate", 0) > 0:
        mod(refmasked_rate=0.0)
    if cfg.get("zero_rate", 0) > 0:
        mod(zero_rate=0.0)
    if cfg.get("tiny_rate", 0) > 0:
        mod(tiny_rate=0.0)
    if cfg.get("max_alts", 1) > 1:
        mod(max_alts=cfg["max_alts"] - 1)
    if cfg.get("report_gp"):
        mod(report_gp=False)
    if cfg.get("report_afp"):
        mod(report_afp=False)
    if cfg.get("allele_filter") is not None:
        mod(allele_filter=None)
    if cfg.get("dummy_parent"):
        mod(dummy_parent=False)
    for k in ("tau_mode", "lambda_mode", "error_mode"):
        if cfg.get(k, "default") != "default":
            mod(**{k: "default"})
    return out


def check_assemble_target(ctx, rec):
    """C01 consequence clause at the command line: the model `mchap assemble` fits is the documented posterior of the inputs it
    was given - ploidy and inbreeding of that sample, allele counts of the locus' SNVs, the requested ladder ending at 1
    (steps, chains and seed do not define the target and are not judged)."""
    cfg = ctx.config
    mdl = rec["model"]
    where = "locus %s, sample %s" % (rec["locus"], rec["sample"])
    if int(mdl.ploidy) != rec["ploidy"]:
        raise Violation("cli_target", "mchap assemble fits ploidy %r for a sample of ploidy %d (%s)" % (mdl.ploidy, rec["ploidy"], where), step=0)
    if abs(float(mdl.inbreeding) - rec["inbreeding"]) > 1e-12:
        raise Violation("cli_target", "mchap assemble fits inbreeding %r for a sample with inbreeding %r (%s)" % (mdl.inbreeding, rec["inbreeding"], where), step=0)
    want_n = [len(a) for a in rec["snv_alleles"]]
    if [int(x) for x in mdl.n_alleles] != want_n:
        raise Violation("cli_target", "mchap assemble fits allele counts %r; the SNVs of the locus have %r (%s)" % (list(mdl.n_alleles), want_n, where), step=0)
    reads = rec["reads"]
    if reads.ndim != 3 or reads.shape[1] != len(want_n) or (len(want_n) and reads.shape[2] < max(want_n)):
        raise Violation("cli_target", "read array of shape %r for %d SNVs with allele counts %r (%s)" % (reads.shape, len(want_n), want_n, where), step=0)
    ladder = [float(t) for t in mdl.temperatures]
    want_l = sorted(set([float(t) for t in (cfg["temperatures"] or [])] + [1.0]))
    if ladder != want_l:
        raise Violation("cli_target", "mchap assemble runs the temperature ladder %r; requested %r (%s)" % (ladder, want_l, where), step=0)
    ctx.counters.inc("cli_models_checked")
    ctx.key("cli-target", rec["ploidy"], tuple(want_n), round(rec["inbreeding"], 3), tuple(ladder))


# ---------------------------------------------------------------- call-pedigree

def gen_pedigree_config(rng, tier):
    cfg = gen_call_config(rng, tier)
    n = rng.choice([2, 3, 3, 4])
    cfg.update({
        "n_samples": n,
        "inbreeding_mode": "none",  # call-pedigree has no --inbreeding
        "ped_ploidy": rng.choice([2, 4, 4]),
        "mixed_ploidy": rng.random() < 0.4,
        "ped_seed": rng.randrange(1 << 30),
        "dummy_parent": rng.random() < 0.3,
        "tau_mode": rng.choice(["default", "default", "scalar", "file"]),
        "lambda_mode": rng.choice(["default", "scalar0", "file"]),
        "error_mode": rng.choice(["default", "scalar", "file"]),
        "mcmc_steps": rng.choice([4, 6, 10]),
        "mcmc_burn": rng.choice([0, 2]),
        "mcmc_chains": rng.choice([1, 2]),
    })
    return cfg


def _record_call_reads(m, argv):
    """Runs `mchap call` briefly and returns {(locus, sample): (reads, counts)} as its sampler received them."""
    np = m["np"]
    call_mod = m["app_call"]
    cur = {}
    out = {}
    real_mcmc = call_mod.CallingMCMC
    real_csg = call_mod.program.call_sample_genotypes

    class Rec(real_mcmc):
        def fit(self, reads, read_counts=None, **kw):
            k = cur["n"]
            cur["n"] += 1
            out[(cur["locus"], cur["samples"][k])] = (np.array(reads), None if read_counts is None else np.array(read_counts))
            return real_mcmc.fit(self, reads, read_counts=read_counts, **kw)

    def csg(self, data):
        cur["locus"] = data.locus.name
        cur["samples"] = list(data.samples)
        cur["n"] = 0
        return real_csg(self, data)

    with Seams() as seams:
        seams.set(call_mod, "CallingMCMC", Rec)
        seams.set(call_mod.program, "call_sample_genotypes", csg)
        run_program("call", argv + ["--mcmc-steps", 2, "--mcmc-burn", 0, "--mcmc-chains", 1, "--mcmc-seed", 1])
    return out


def run_pedigree_cli(ctx, report=False):
    """(report=True: C14 at the command line - the GT / GPM call-pedigree prints for every individual vs the trace its sampler returned.)
    C18 at the command line: the joint model `mchap call-pedigree` hands to its sampler - translated back to sample names -
    is the pedigree the files describe (parents in order, gamete ploidy / ibd / error per parent-child pair, ploidy), over the
    record's usable alleles with the input's prior, and row i of the read arrays holds sample i's own reads."""
    import random
    m = bootstrap_app()
    np = m["np"]
    from mchap.application import call_pedigree as ped_mod
    cfg = ctx.config
    rng = random.Random(cfg["ped_seed"])
    with Workdir() as tmp:
        ds = make_dataset(cfg, tmp)
        hv = os.path.join(tmp, "haplotypes.vcf")
        loci = effective_loci(cfg, write_haplotype_vcf(cfg, ds, hv))
        by_name = {l["name"]: l for l in loci}
        names = list(ds["samples"])
        everyone = names + (["GHOST"] if cfg["dummy_parent"] else [])
        pls = {s: (rng.choice([2, 4]) if cfg.get("mixed_ploidy") else cfg["ped_ploidy"]) for s in everyone}
        ploidy_file = os.path.join(tmp, "ped.ploidy")
        with open(ploidy_file, "w") as f:
            for s in everyone:
                f.write("%s\t%d\n" % (s, pls[s]))
        age = list(everyone)
        rng.shuffle(age)
        parents = {}
        for i, s in enumerate(age):
            # parent-child links only between individuals of the same ploidy (balanced gametes by default)
            older = [o for o in age[:i] if pls[o] == pls[s]]
            p = rng.choice(older + [None]) if older else None
            q = rng.choice(older + [None, None]) if older else None
            parents[s] = (p, q)
        ped_file = os.path.join(tmp, "pedigree.txt")
        order = list(everyone)
        rng.shuffle(order)
        with open(ped_file, "w") as f:
            for s in order:
                f.write("%s\t%s\t%s\n" % (s, parents[s][0] or ".", parents[s][1] or "."))
        argv = ["--bam"] + ds["bam_files"] + ["--ploidy", ploidy_file, "--haplotypes", hv, "--sample-parents", ped_file] + filter_args(cfg)
        if cfg["use_afp"]:
            argv += ["--prior-frequencies", "AFP"]
        tau = {s: (pls[s] // 2, pls[s] // 2) for s in everyone}
        if cfg["tau_mode"] == "scalar" and len(set(pls.values())) == 1:
            argv += ["--gamete-ploidy", str(pls[everyone[0]] // 2)]
        elif cfg["tau_mode"] == "file":
            path = os.path.join(tmp, "tau.txt")
            with open(path, "w") as f:
                for s in everyone:
                    tau[s] = rng.choice([(1, 3), (3, 1), (2, 2), (2, 2)]) if pls[s] == 4 else (1, 1)
                    f.write("%s\t%d\t%d\n" % (s, tau[s][0], tau[s][1]))
            argv += ["--gamete-ploidy", path]
        lam = {s: (0.0, 0.0) for s in everyone}
        if cfg["lambda_mode"] == "scalar0":
            argv += ["--gamete-ibd", "0.0"]
        elif cfg["lambda_mode"] == "file":
            path = os.path.join(tmp, "lambda.txt")
            with open(path, "w") as f:
                for s in everyone:
                    lam[s] = tuple(rng.choice([0.0, 0.1, 0.25]) if t == 2 else 0.0 for t in tau[s])
                    f.write("%s\t%r\t%r\n" % (s, lam[s][0], lam[s][1]))
            argv += ["--gamete-ibd", path]
        err = {s: (0.01, 0.01) for s in everyone}
        if cfg["error_mode"] == "scalar":
            v = rng.choice([0.001, 0.05, 0.2])
            err = {s: (v, v) for s in everyone}
            argv += ["--gamete-error", repr(v)]
        elif cfg["error_mode"] == "file":
            path = os.path.join(tmp, "error.txt")
            with open(path, "w") as f:
                for s in everyone:
                    err[s] = (rng.choice([0.001, 0.01, 0.1]), rng.choice([0.001, 0.01, 0.3]))
                    f.write("%s\t%r\t%r\n" % (s, err[s][0], err[s][1]))
            argv += ["--gamete-error", path]

        own_reads = _record_call_reads(m, ["--bam"] + ds["bam_files"] + ["--ploidy", ploidy_file, "--haplotypes", hv] + filter_args(cfg)
                                       + (["--prior-frequencies", "AFP"] if cfg["use_afp"] else []))
        recs = []
        cur = {}
        real_cls = ped_mod.PedigreeCallingMCMC
        real_csg = ped_mod.program.call_sample_genotypes

        class Rec(real_cls):
            def fit(self, sample_reads, sample_read_counts, **kw):
                tr = real_cls.fit(self, sample_reads, sample_read_counts, **kw)
                recs.append({"locus": cur["locus"], "samples": list(cur["samples"]), "model": self,
                             "reads": np.array(sample_reads), "counts": np.array(sample_read_counts), "trace": np.array(tr.genotypes)})
                return tr

        def csg(self, data):
            cur["locus"] = data.locus.name
            cur["samples"] = list(data.samples)
            return real_csg(self, data)

        with Seams() as seams:
            seams.set(ped_mod, "PedigreeCallingMCMC", Rec)
            seams.set(ped_mod.program, "call_sample_genotypes", csg)
            out = run_program("call-pedigree", argv + ["--mcmc-steps", cfg["mcmc_steps"], "--mcmc-burn", cfg["mcmc_burn"],
                                                        "--mcmc-chains", cfg["mcmc_chains"], "--mcmc-seed", cfg["mcmc_seed"]])
        ctx.log.add("cli", "call-pedigree", len(recs))
        columns, parsed = parse_vcf(out)
        if sorted(columns) != sorted(everyone):
            raise Violation("cli_pedigree", "output has sample columns %r; BAM samples and pedigree members are %r" % (columns, everyone), step=0)
        usable = [l for l in loci if expected_prior(l, cfg["use_afp"]) is not None]
        if len(recs) != len(usable):
            raise Violation("cli_sampler_runs", "mchap call-pedigree ran its sampler %d times for %d usable records" % (len(recs), len(usable)), step=0)
        for rec in recs:
            l = by_name[rec["locus"]]
            mdl = rec["model"]
            samples = rec["samples"]
            n = len(samples)
            pos = {s: i for i, s in enumerate(samples)}
            where = "locus %s" % rec["locus"]
            arrs = {k: np.asarray(getattr(mdl, k)) for k in ("sample_ploidy", "sample_inbreeding", "sample_parents", "gamete_tau", "gamete_lambda", "gamete_error")}
            if any(len(a) != n for a in arrs.values()):
                raise Violation("cli_pedigree", "pedigree arrays do not have one row per sample (%s)" % where, step=0)
            for s in samples:
                i = pos[s]
                got_par = tuple(None if int(x) < 0 else samples[int(x)] for x in arrs["sample_parents"][i])
                if int(arrs["sample_ploidy"][i]) != pls[s] or float(arrs["sample_inbreeding"][i]) != 0.0:
                    raise Violation("cli_pedigree", "sample %s modelled with ploidy %r / inbreeding %r (%s)" % (s, arrs["sample_ploidy"][i], arrs["sample_inbreeding"][i], where), step=0)
                # a parent-child pair is (parent, tau, lambda, error) in the column order of the pedigree file
                got = [(got_par[j], int(arrs["gamete_tau"][i][j]), float(arrs["gamete_lambda"][i][j]), float(arrs["gamete_error"][i][j])) for j in (0, 1)]
                want = [(parents[s][j], tau[s][j], lam[s][j], err[s][j]) for j in (0, 1)]
                if got != want:
                    raise Violation("cli_pedigree", "sample %s: the sampler is told (parent, gamete ploidy, ibd, error) = %r; the files say %r (%s)" % (s, got, want, where), step=0,
                                    detail={"sample": s, "got": got, "want": want})
                # row i holds sample i's own reads
                reads_i, counts_i = rec["reads"][i], rec["counts"][i]
                own = own_reads.get((rec["locus"], s)) if s in names else None
                k = 0 if own is None else len(own[0])
                own_counts = np.ones(k, int) if own is None or own[1] is None else own[1]
                ok = int(np.sum(counts_i[k:])) == 0 and np.array_equal(counts_i[:k], own_counts)
                if ok and k:
                    a, b = reads_i[:k], own[0]
                    ok = a.shape == b.shape and np.array_equal(np.isnan(a), np.isnan(b)) and np.array_equal(np.nan_to_num(a), np.nan_to_num(b))
                if not ok:
                    raise Violation("cli_pedigree", "row %d of the read arrays is not sample %s's own reads (%s)" % (i, s, where), step=0)
            # alleles and prior
            rows_expected = encode_sequences(l["seqs"])
            lookup = {r: i for i, r in enumerate(rows_expected)}
            want_prior = expected_prior(l, cfg["use_afp"])
            haps = [tuple(int(a) for a in h) for h in np.asarray(mdl.haplotypes)]
            fr = [1.0 / len(haps)] * len(haps) if mdl.frequencies is None else [float(x) for x in mdl.frequencies]
            if len(fr) != len(haps) or any(h not in lookup for h in haps):
                raise Violation("cli_target", "haplotypes / frequencies handed to the pedigree sampler do not match the input record (%s)" % where, step=0)
            got_prior = {}
            for h, x in zip(haps, fr):
                if x > 0:
                    got_prior[lookup[h]] = got_prior.get(lookup[h], 0.0) + x
            tot = sum(got_prior.values())
            if set(got_prior) != set(want_prior) or any(abs(got_prior[a] / tot - want_prior[a]) > 1e-9 for a in want_prior):
                raise Violation("cli_target", "prior over the record's alleles handed to the pedigree sampler is %r; the input defines %r (%s)" % (got_prior, want_prior, where), step=0)
            ctx.counters.inc("cli_pedigrees_checked")
            if cfg["dummy_parent"]:
                ctx.counters.inc("cli_unsequenced_member")
        if len(set(pls.values())) > 1:
            ctx.counters.inc("cli_mixed_ploidy_pedigree")
        if report:
            # the printed genotype of every individual, read back through the output record's own allele sequences, holds the printed
            # GPM of that individual's trace after --mcmc-burn (padding of lower-ploidy rows excluded)
            by = {r["locus"]: r for r in recs}
            for vr in parsed:
                rec = by.get(vr["id"])
                l = by_name[vr["id"]]
                out_seqs = [vr["ref"]] + vr["alts"]
                for s in columns:
                    gt = vr["samples"][s]["GT"].replace("|", "/").split("/")
                    if rec is None:
                        continue
                    where = "locus %s, individual %s (ploidy %d)" % (vr["id"], s, pls[s])
                    if len(gt) != pls[s]:
                        raise Violation("cli_report", "call-pedigree prints GT %s (%d alleles) for %s" % (vr["samples"][s]["GT"], len(gt), where), step=0)
                    try:
                        key = tuple(sorted(l["seqs"].index(out_seqs[int(a)]) for a in gt))
                    except (ValueError, IndexError):
                        raise Violation("cli_report", "call-pedigree prints GT %s for %s, which does not spell alleles of the input record" % (vr["samples"][s]["GT"], where), step=0)
                    i = rec["samples"].index(s)
                    lookup = {r: k for k, r in enumerate(encode_sequences(l["seqs"]))}
                    amap = [lookup[tuple(int(a) for a in h)] for h in np.asarray(rec["model"].haplotypes)]
                    tr = rec["trace"][:, cfg["mcmc_burn"]:, i, :]
                    n = tot = 0
                    for chain in tr:
                        for g in chain:
                            called = [int(a) for a in g if int(a) >= 0]
                            tot += 1
                            if len(called) == pls[s] and tuple(sorted(amap[a] for a in called)) == key:
                                n += 1
                    want = n / tot
                    if abs(float(vr["samples"][s]["GPM"]) - want) > 0.0006:
                        raise Violation("cli_report", "call-pedigree prints GT %s with GPM %s for %s; that genotype holds %.6f of the individual's retained trace"
                                        % (vr["samples"][s]["GT"], vr["samples"][s]["GPM"], where, want), step=0, detail={"masked": l["masked"], "afp": l["afp"]})
                    ctx.counters.inc("cli_reports_checked")
        ctx.key("cli-ped", tuple(sorted(pls.items())), tuple(sorted((s, parents[s]) for s in everyone)), cfg["tau_mode"], cfg["lambda_mode"], cfg["error_mode"])
