"""Compiled-code probes (JIT on), run as a subprocess by thorough-tier checks.

  cache    C09-5: DenovoMCMC.fit with the same seed and llk_cache_threshold in {-1, 0, 100, 10**6}
           must give identical traces, including hot many-SNV runs long enough to overflow the
           real 2**16-node cache limit (the flush path of the shipped configuration).
  kernels  section 2.2: RNG-free kernels recorded by the interpreted run are recomputed compiled and
           must agree to 1e-9.

usage: probe_compiled.py cache <seed> <n_cases>   |   probe_compiled.py kernels <file.json>
Prints one JSON document.
"""
import json
import os
import random
import sys

REPO = os.environ.get("VERIF_REPO", "/repo")
sys.path.insert(0, REPO)


def gen_case(rng, big):
    import numpy as np
    ploidy = rng.choice([2, 4, 4, 6])
    n_pos = rng.choice([3, 5, 8]) if not big else rng.choice([10, 12])
    n_alleles = [rng.choice([2, 2, 3]) for _ in range(n_pos)]
    n_reads = rng.choice([0, 2, 6, 12]) if not big else rng.choice([0, 1])
    amax = max(n_alleles)
    reads = np.zeros((n_reads, n_pos, amax))
    for r in range(n_reads):
        for j in range(n_pos):
            if rng.random() < 0.2:
                reads[r, j, :] = np.nan
                continue
            a = rng.randrange(n_alleles[j])
            p = rng.choice([0.7, 0.9, 0.99])
            reads[r, j, : n_alleles[j]] = (1 - p) / max(1, n_alleles[j] - 1)
            reads[r, j, a] = p
    counts = np.array([rng.choice([1, 2, 5]) for _ in range(n_reads)], dtype=np.int64) if n_reads else None
    return dict(ploidy=ploidy, n_alleles=n_alleles, reads=reads, counts=counts,
                inbreeding=rng.choice([0.0, 0.0, 0.2]), temperatures=rng.choice([(1.0,), (0.1, 1.0), (0.05, 0.3, 1.0)]),
                steps=rng.choice([50, 200]) if not big else 1500, seed=rng.randrange(2 ** 31), big=big)


def probe_cache(seed, n_cases):
    import numpy as np
    from mchap.assemble.mcmc import DenovoMCMC
    rng = random.Random(seed)
    out = {"cases": 0, "big_cases": 0, "mismatches": []}
    for c in range(n_cases):
        big = c % 8 == 7
        case = gen_case(rng, big)
        traces = {}
        for thr in (-1, 0, 100, 10 ** 6):
            m = DenovoMCMC(ploidy=case["ploidy"], n_alleles=case["n_alleles"], inbreeding=case["inbreeding"], steps=case["steps"], chains=1,
                           fix_homozygous=2.0, temperatures=case["temperatures"], random_seed=case["seed"], llk_cache_threshold=thr)
            t = m.fit(case["reads"], read_counts=case["counts"])
            traces[thr] = (np.array(t.genotypes), np.array(t.llks))
        base = traces[-1]
        for thr, (g, l) in traces.items():
            same = np.array_equal(g, base[0]) and np.allclose(l, base[1], rtol=1e-9, atol=1e-9, equal_nan=True)
            if not same:
                first = int(np.argmax(np.any(g != base[0], axis=(0, 2, 3)))) if g.shape == base[0].shape else -1
                out["mismatches"].append({"case": c, "threshold": thr, "first_differing_step": first, "ploidy": case["ploidy"],
                                          "n_alleles": case["n_alleles"], "temperatures": list(case["temperatures"]), "steps": case["steps"], "seed": case["seed"], "big": big})
        out["cases"] += 1
        out["big_cases"] += int(big)
    return out


def probe_kernels(path):
    import numpy as np
    from mchap.calling import mcmc as cmcmc
    from mchap.pedigree import mcmc as pmcmc
    from mchap.assemble.tempering import chain_swap_acceptance
    doc = json.load(open(path))
    out = {"compared": 0, "mismatches": []}

    def arr(x, dt):
        return np.array(x, dtype=dt)

    def f(x):
        return np.array([[[np.nan if v is None else v for v in row] for row in read] for read in x], dtype=np.float64)

    for k, rec in enumerate(doc["records"]):
        kind = rec["kind"]
        if kind in ("call_gibbs", "call_mh"):
            nh = len(rec["haplotypes"])
            l, p, pr = np.empty(nh), np.empty(nh), np.empty(nh)
            fn = cmcmc.gibbs_options if kind == "call_gibbs" else cmcmc.mh_options
            fr = None if rec["frequencies"] is None else arr(rec["frequencies"], np.float64)
            n_pos = len(rec["haplotypes"][0])
            reads = f(rec["reads"]).reshape(len(rec["reads"]), n_pos, -1) if len(rec["reads"]) else np.empty((0, n_pos, int(rec.get("max_allele", 2))))
            fn(arr(rec["genotype"], np.int64), int(rec["k"]), arr(rec["haplotypes"], np.int8), reads,
               arr(rec["counts"], np.int64), float(rec["inbreeding"]), l, p, pr, fr, None)
            got = pr
        elif kind in ("ped_gibbs", "ped_mh"):
            X = arr(rec["X"], np.int64)
            ploidy = arr(rec["ploidy"], np.int64)
            parents = arr(rec["parents"], np.int64)
            children = pmcmc.sample_children_matrix(parents)
            mp = X.shape[1]
            reads = np.array([[[[np.nan if v is None else v for v in row] for row in rd] for rd in smp] for smp in rec["reads"]], dtype=np.float64)
            z = lambda: np.zeros(mp, dtype=np.int64)
            fn = pmcmc.gibbs_probabilities if kind == "ped_gibbs" else pmcmc.metropolis_hastings_probabilities
            got = fn(int(rec["target"]), int(rec["allele"]), X, ploidy, parents, children, arr(rec["tau"], np.int64), arr(rec["lambda"], np.float64),
                     arr(rec["error"], np.float64), reads, arr(rec["counts"], np.int64), arr(rec["haplotypes"], np.int8), arr(rec["log_frequencies"], np.float64),
                     None, z(), z(), z(), z(), z(), z(), z(), np.zeros(mp))
            got = np.array(got)
        elif kind == "swap_acc":
            got = np.array([chain_swap_acceptance(*[float(v) for v in rec["args"]])])
        else:
            continue
        want = np.array(rec["vector"], dtype=np.float64)
        out["compared"] += 1
        if got.shape != want.shape or not np.allclose(got, want, rtol=1e-9, atol=1e-9):
            out["mismatches"].append({"record": k, "kind": kind, "compiled": got.tolist(), "interpreted": want.tolist()})
    return out


if __name__ == "__main__":
    if sys.argv[1] == "cache":
        print(json.dumps(probe_cache(int(sys.argv[2]), int(sys.argv[3]))))
    else:
        print(json.dumps(probe_kernels(sys.argv[2])))
