"""Compiled-code probes (JIT on), run as a subprocess by thorough-tier checks.

  cache    C09-5: DenovoMCMC.fit with the same seed and llk_cache_threshold in {-1, 0, 100, 10**6}
           must give identical traces, including hot many-SNV runs long enough to overflow the
           real 2**16-node cache limit (the flush path of the shipped configuration).
  kernels  section 2.2: RNG-free kernels recorded by the interpreted run are recomputed compiled and
           must agree to 1e-9.

  callcache  the compiled call sampler as the programs use it (CallingMCMC.fit: per-chain likelihood cache ON): every
           likelihood in the returned trace equals the compiled, uncached log_likelihood_alleles of that step's genotype
           (relative 1e-12: the cache stores what the function computed, nothing is re-derived), and the same seed with
           the cache OFF (mcmc_sampler(cache=False) from the same start) gives the identical trajectory and likelihoods.
           Reads carry large counts so that |llk| reaches 1e3-1e6 and a loss of precision in cached values is visible.

  pedcache   the compiled call-pedigree sampler (cache created inside mcmc_sampler, no switch, no likelihoods returned) against a
           cache-free twin re-compiled from the same source: same seed and start => identical trace.

usage: probe_compiled.py pedcache <seed> <n_cases>  |  probe_compiled.py cache <seed> <n_cases> [small]  |  probe_compiled.py kernels <file.json>  |  probe_compiled.py callcache <seed> <n_cases>
Prints one JSON document.
"""
import json
import os
import random
import sys

REPO = os.environ.get("VERIF_REPO", "/repo")
sys.path.insert(0, REPO)


def gen_case(rng, big):
    import numpy as np
    ploidy = rng.choice([2, 4, 4, 6])
    n_pos = rng.choice([3, 5, 8]) if not big else rng.choice([10, 12])
    n_alleles = [rng.choice([2, 2, 3]) for _ in range(n_pos)]
    n_reads = rng.choice([0, 2, 6, 12]) if not big else rng.choice([0, 1])
    amax = max(n_alleles)
    reads = np.zeros((n_reads, n_pos, amax))
    for r in range(n_reads):
        for j in range(n_pos):
            if rng.random() < 0.2:
                reads[r, j, :] = np.nan
                continue
            a = rng.randrange(n_alleles[j])
            p = rng.choice([0.7, 0.9, 0.99])
            reads[r, j, : n_alleles[j]] = (1 - p) / max(1, n_alleles[j] - 1)
            reads[r, j, a] = p
    counts = np.array([rng.choice([1, 2, 5]) for _ in range(n_reads)], dtype=np.int64) if n_reads else None
    return dict(ploidy=ploidy, n_alleles=n_alleles, reads=reads, counts=counts,
                inbreeding=rng.choice([0.0, 0.0, 0.2]), temperatures=rng.choice([(1.0,), (0.1, 1.0), (0.05, 0.3, 1.0)]),
                steps=rng.choice([50, 200]) if not big else 1500, seed=rng.randrange(2 ** 31), big=big)


def probe_callcache(seed, n_cases):
    import numpy as np
    from mchap.calling.classes import CallingMCMC
    from mchap.calling import mcmc as cmcmc
    from mchap.calling.likelihood import log_likelihood_alleles
    from mchap.jitutils import seed_numba
    rng = random.Random(seed)
    out = {"cases": 0, "steps_compared": 0, "trajectory_compared": 0, "trajectory_skipped": 0, "max_abs_llk": 0.0, "mismatches": []}
    for c in range(n_cases):
        n_pos = rng.choice([1, 2, 3, 5])
        n_al = [rng.choice([2, 2, 3]) for _ in range(n_pos)]
        n_haps = rng.choice([2, 3, 5, 8])
        haps = set()
        while len(haps) < n_haps and len(haps) < int(np.prod(n_al)):
            haps.add(tuple(rng.randrange(a) for a in n_al))
        haplotypes = np.array(sorted(haps), dtype=np.int8)
        n_haps = len(haplotypes)
        ploidy = rng.choice([2, 4, 4, 6])
        n_reads = rng.choice([1, 3, 8])
        amax = max(n_al)
        reads = np.zeros((n_reads, n_pos, amax))
        for r in range(n_reads):
            h = haplotypes[rng.randrange(n_haps)]
            for j in range(n_pos):
                if rng.random() < 0.15:
                    reads[r, j, :] = np.nan
                    continue
                a = int(h[j]) if rng.random() < 0.9 else rng.randrange(n_al[j])
                p = rng.choice([0.7, 0.9, 0.99])
                reads[r, j, : n_al[j]] = (1 - p) / max(1, n_al[j] - 1)
                reads[r, j, a] = p
        scale = rng.choice([1, 10, 1000, 100000])
        counts = np.array([rng.randint(1, 9) * scale for _ in range(n_reads)], dtype=np.int64)
        F = rng.choice([0.0, 0.0, 0.1, 0.5])
        freqs = None
        if rng.random() < 0.5:
            w = np.array([rng.choice([1, 2, 5, 20]) for _ in range(n_haps)], dtype=float)
            freqs = w / w.sum()
        steps = rng.choice([30, 80])
        sd = rng.randrange(1, 2 ** 31 - 1)
        step_type = rng.choice(["Gibbs", "Gibbs", "Metropolis-Hastings"])
        info = {"case": c, "ploidy": ploidy, "n_haplotypes": n_haps, "n_pos": n_pos, "count_scale": scale, "inbreeding": F, "step_type": step_type, "seed": sd}
        model = CallingMCMC(ploidy=ploidy, haplotypes=haplotypes, frequencies=freqs, inbreeding=F, steps=steps, chains=1, random_seed=sd, step_type=step_type)
        start = np.sort(np.array([rng.randrange(n_haps) for _ in range(ploidy)], dtype=np.int64))
        tr = model.fit(reads, read_counts=counts, initial=start.copy())
        G = np.array(tr.genotypes)[0]
        L = np.array(tr.llks)[0]
        bad = None
        for i in range(steps):
            want = log_likelihood_alleles(reads, counts, haplotypes, np.sort(G[i]))
            out["steps_compared"] += 1
            out["max_abs_llk"] = max(out["max_abs_llk"], abs(float(want)))
            if not (L[i] == want or abs(L[i] - want) <= 1e-12 * max(1.0, abs(want))):
                bad = {"step": i, "trace_llk": float(L[i]), "recomputed": float(want)}
                break
        if bad:
            out["mismatches"].append(dict(info, kind="trace_llk_not_the_likelihood", **bad))
        # same seed, cache off, same start
        try:
            np.random.seed(sd)
            seed_numba(sd)
            g2, l2 = cmcmc.mcmc_sampler(genotype_alleles=start.copy(), haplotypes=haplotypes, reads=reads, read_counts=counts, inbreeding=F,
                                        frequencies=freqs, n_steps=steps, cache=False, step_type=0 if step_type == "Gibbs" else 1)
        except TypeError:
            out["trajectory_skipped"] += 1
        else:
            if np.array_equal(np.sort(g2, axis=1)[0], np.sort(G, axis=1)[0]):
                # the class seeds and starts the way this replay does (else the two runs are not comparable: skipped, not judged)
                out["trajectory_compared"] += 1
                if not (np.array_equal(np.sort(g2, axis=1), np.sort(G, axis=1)) and np.allclose(l2, L, rtol=1e-12, atol=0.0)):
                    first = int(np.argmax(np.any(np.sort(g2, axis=1) != np.sort(G, axis=1), axis=1) | ~np.isclose(l2, L, rtol=1e-12, atol=0.0)))
                    out["mismatches"].append(dict(info, kind="trajectory_depends_on_cache", first_differing_step=first))
            else:
                out["trajectory_skipped"] += 1
        out["cases"] += 1
    return out


def cache_free_twin(module, cached_name):
    """Re-compiles every @njit function DEFINED in `module` from its Python source (py_func) in a copy of the module's
    namespace in which `cached_name` is bound to a wrapper that ignores the cache argument and always recomputes
    (the repo's own function with cache=None).  Everything else - control flow, draws, priors - is the identical code."""
    import types
    import numba
    orig = getattr(module, cached_name)

    @numba.njit
    def recompute(reads, read_counts, haplotypes, sample, genotype_alleles, cache=None):
        return orig(reads, read_counts, haplotypes, sample, genotype_alleles, None)

    ns = dict(vars(module))
    ns[cached_name] = recompute
    for name, obj in list(vars(module).items()):
        py = getattr(obj, "py_func", None)
        if py is None or getattr(py, "__module__", None) != module.__name__:
            continue
        f = types.FunctionType(py.__code__, ns, py.__name__, py.__defaults__, py.__closure__)
        f.__kwdefaults__ = py.__kwdefaults__
        ns[name] = numba.njit(f)
    return ns


PED_TOPOLOGIES = {
    "trio": [(-1, -1), (-1, -1), (0, 1)],
    "sibs": [(-1, -1), (-1, -1), (0, 1), (0, 1)],
    "halfsibs": [(-1, -1), (-1, -1), (-1, -1), (0, 1), (0, 2)],
    "selfing": [(-1, -1), (0, 0), (1, 1)],
    "backcross": [(-1, -1), (-1, -1), (0, 1), (0, 2)],
    "duo": [(-1, -1), (0, -1), (-1, 1)],
}


def probe_pedcache(seed, n_cases):
    """The COMPILED call-pedigree sampler creates its likelihood cache inside mcmc_sampler, has no switch for it and returns no
    likelihoods.  Oracle: the same fit (same seed, same start) through a cache-free twin of the compiled sampler must give the
    identical trace.  Reads carry counts up to 9e5 so that |llk| reaches 1e6 and a cached value that is not exactly the
    computed one (precision, key collision, wrong sample) changes the conditionals by whole log units."""
    import numpy as np
    from mchap.pedigree import classes as pclasses
    from mchap.pedigree import mcmc as pmcmc
    from mchap.pedigree.classes import PedigreeCallingMCMC
    twin = cache_free_twin(pmcmc, "log_likelihood_alleles_cached")["mcmc_sampler"]
    real = pclasses.mcmc_sampler
    rng = random.Random(seed)
    out = {"cases": 0, "ballast_cases": 0, "steps_compared": 0, "sample_steps_compared": 0, "distinct_states": 0, "mismatches": []}
    for c in range(n_cases):
        topo = rng.choice(sorted(PED_TOPOLOGIES))
        parents = PED_TOPOLOGIES[topo]
        ns = len(parents)
        base = rng.choice([2, 4, 4])
        ploidy, tau = [], []
        mixed = base == 4 and rng.random() < 0.3
        for i, (p_, q_) in enumerate(parents):
            if p_ < 0 and q_ < 0:
                pl = base if not (mixed and i == 1) else 2
                ploidy.append(pl)
                tau.append([pl // 2, pl // 2])
            else:
                t = [ploidy[x] // 2 if x >= 0 else base // 2 for x in (p_, q_)]
                tau.append(t)
                ploidy.append(sum(t))
        n_pos = rng.choice([1, 2, 3])
        n_haps = min(2 ** n_pos, rng.choice([2, 3, 4, 6, 8]))
        haps = set()
        while len(haps) < n_haps:
            haps.add(tuple(rng.randrange(2) for _ in range(n_pos)))
        haplotypes = np.array(sorted(haps), dtype=np.int8)
        maxp = max(ploidy)
        mr = rng.choice([2, 4, 7])
        reads = np.full((ns, mr, n_pos, 2), np.nan)
        counts = np.zeros((ns, mr), dtype=np.int64)
        scale = rng.choice([1, 1, 10, 1000, 100000])
        # "ballast": a read that says nothing (0.5 / 0.5 everywhere) with a huge count adds the same large constant to the
        # likelihood of every genotype of that sample: |llk| ~ 1e5-1e6 while the DIFFERENCES between genotypes stay of order 1,
        # so a cached value that lost precision (float32: ulp 0.06-0.12 there) moves the conditionals by several percent
        ballast = rng.random() < 0.6
        for i in range(ns):
            n_i = rng.randint(0, mr)
            for r in range(n_i):
                if ballast and r == n_i - 1 and rng.random() < 0.8:
                    counts[i, r] = rng.randint(2, 9) * 100000
                    reads[i, r, :, :] = 0.5
                    continue
                counts[i, r] = rng.randint(1, 9) * (1 if ballast else scale)
                h = haplotypes[rng.randrange(n_haps)]
                for j in range(n_pos):
                    if rng.random() < 0.15:
                        continue
                    a = int(h[j]) if rng.random() < 0.85 else rng.randrange(2)
                    pr = rng.choice([0.7, 0.9, 0.99])
                    reads[i, r, j, :] = 1 - pr
                    reads[i, r, j, a] = pr
            if rng.random() < 0.4:
                order = list(range(mr))
                rng.shuffle(order)
                reads[i] = reads[i][order]
                counts[i] = counts[i][order]
        err = rng.choice([0.01, 0.1, 0.3])
        freqs = None
        if rng.random() < 0.5:
            w = np.array([rng.choice([1, 2, 5, 20]) for _ in range(n_haps)], dtype=float)
            freqs = w / w.sum()
        steps = rng.choice([40, 120])
        sd = rng.randrange(1, 2 ** 31 - 1)
        step_type = rng.choice(["Gibbs", "Gibbs", "Metropolis-Hastings"])
        info = {"case": c, "topology": topo, "ploidy": ploidy, "n_haplotypes": int(n_haps), "count_scale": scale, "ballast": ballast, "step_type": step_type, "seed": sd, "error": err}
        kw = dict(sample_ploidy=np.array(ploidy, dtype=np.int64), sample_inbreeding=np.zeros(ns), sample_parents=np.array(parents, dtype=np.int64),
                  gamete_tau=np.array(tau, dtype=np.int64), gamete_lambda=np.zeros((ns, 2)), gamete_error=np.full((ns, 2), err), haplotypes=haplotypes,
                  frequencies=freqs, steps=steps, annealing=rng.choice([0, 10]), chains=rng.choice([1, 2]), random_seed=sd, step_type=step_type,
                  swap_parental_alleles=rng.random() < 0.8)
        initial = None
        if rng.random() < 0.5:
            initial = np.full((ns, maxp), -1, dtype=np.int16)
            for i in range(ns):
                initial[i, : ploidy[i]] = sorted(rng.randrange(n_haps) for _ in range(ploidy[i]))
        try:
            pclasses.mcmc_sampler = real
            ta = np.array(PedigreeCallingMCMC(**kw).fit(reads, counts, initial=None if initial is None else initial.copy()).genotypes)
            pclasses.mcmc_sampler = twin
            tb = np.array(PedigreeCallingMCMC(**kw).fit(reads, counts, initial=None if initial is None else initial.copy()).genotypes)
        finally:
            pclasses.mcmc_sampler = real
        out["cases"] += 1
        out["ballast_cases"] += int(ballast)
        out["steps_compared"] += int(ta.shape[0] * ta.shape[1])
        out["sample_steps_compared"] += int(ta.shape[0] * ta.shape[1] * ta.shape[2])
        out["distinct_states"] += len({ta[ch, i].tobytes() for ch in range(ta.shape[0]) for i in range(ta.shape[1])})
        if ta.shape != tb.shape or not np.array_equal(ta, tb):
            first = -1
            if ta.shape == tb.shape:
                first = int(np.argmax(np.any(ta != tb, axis=(0, 2, 3))))
            out["mismatches"].append(dict(info, kind="pedigree_trajectory_depends_on_cache", first_differing_step=first))
    return out


def probe_cache(seed, n_cases, small=False):
    import numpy as np
    from mchap.assemble.mcmc import DenovoMCMC
    rng = random.Random(seed)
    out = {"cases": 0, "big_cases": 0, "mismatches": []}
    for c in range(n_cases):
        big = c % 8 == 7 and not small
        case = gen_case(rng, big)
        traces = {}
        for thr in (-1, 0, 100, 10 ** 6):
            m = DenovoMCMC(ploidy=case["ploidy"], n_alleles=case["n_alleles"], inbreeding=case["inbreeding"], steps=case["steps"], chains=1,
                           fix_homozygous=2.0, temperatures=case["temperatures"], random_seed=case["seed"], llk_cache_threshold=thr)
            t = m.fit(case["reads"], read_counts=case["counts"])
            traces[thr] = (np.array(t.genotypes), np.array(t.llks))
        base = traces[-1]
        if not big and len(case["reads"]):
            # every recorded likelihood is the compiled, uncached likelihood of that step's genotype on these reads and counts
            from mchap.assemble.likelihood import log_likelihood
            for thr, (g, l) in traces.items():
                for i in range(0, g.shape[1], max(1, g.shape[1] // 25)):
                    want = log_likelihood(case["reads"], g[0, i], read_counts=case["counts"])
                    out["llks_recomputed"] = out.get("llks_recomputed", 0) + 1
                    if not (abs(l[0, i] - want) <= 1e-9 * max(1.0, abs(want))):
                        out["mismatches"].append({"case": c, "threshold": thr, "kind": "trace_llk_not_the_likelihood", "step": i, "trace_llk": float(l[0, i]), "recomputed": float(want)})
                        break
        for thr, (g, l) in traces.items():
            same = np.array_equal(g, base[0]) and np.allclose(l, base[1], rtol=1e-9, atol=1e-9, equal_nan=True)
            if not same:
                first = int(np.argmax(np.any(g != base[0], axis=(0, 2, 3)))) if g.shape == base[0].shape else -1
                out["mismatches"].append({"case": c, "threshold": thr, "first_differing_step": first, "ploidy": case["ploidy"],
                                          "n_alleles": case["n_alleles"], "temperatures": list(case["temperatures"]), "steps": case["steps"], "seed": case["seed"], "big": big})
        out["cases"] += 1
        out["big_cases"] += int(big)
    return out


def probe_kernels(path):
    import numpy as np
    from mchap.calling import mcmc as cmcmc
    from mchap.pedigree import mcmc as pmcmc
    from mchap.assemble.tempering import chain_swap_acceptance
    doc = json.load(open(path))
    out = {"compared": 0, "mismatches": []}

    def arr(x, dt):
        return np.array(x, dtype=dt)

    def f(x):
        return np.array([[[np.nan if v is None else v for v in row] for row in read] for read in x], dtype=np.float64)

    for k, rec in enumerate(doc["records"]):
        kind = rec["kind"]
        if kind in ("call_gibbs", "call_mh"):
            nh = len(rec["haplotypes"])
            l, p, pr = np.empty(nh), np.empty(nh), np.empty(nh)
            fn = cmcmc.gibbs_options if kind == "call_gibbs" else cmcmc.mh_options
            fr = None if rec["frequencies"] is None else arr(rec["frequencies"], np.float64)
            n_pos = len(rec["haplotypes"][0])
            reads = f(rec["reads"]).reshape(len(rec["reads"]), n_pos, -1) if len(rec["reads"]) else np.empty((0, n_pos, int(rec.get("max_allele", 2))))
            fn(arr(rec["genotype"], np.int64), int(rec["k"]), arr(rec["haplotypes"], np.int8), reads,
               arr(rec["counts"], np.int64), float(rec["inbreeding"]), l, p, pr, fr, None)
            got = pr
        elif kind in ("ped_gibbs", "ped_mh"):
            X = arr(rec["X"], np.int64)
            ploidy = arr(rec["ploidy"], np.int64)
            parents = arr(rec["parents"], np.int64)
            children = pmcmc.sample_children_matrix(parents)
            mp = X.shape[1]
            reads = np.array([[[[np.nan if v is None else v for v in row] for row in rd] for rd in smp] for smp in rec["reads"]], dtype=np.float64)
            z = lambda: np.zeros(mp, dtype=np.int64)
            fn = pmcmc.gibbs_probabilities if kind == "ped_gibbs" else pmcmc.metropolis_hastings_probabilities
            got = fn(int(rec["target"]), int(rec["allele"]), X, ploidy, parents, children, arr(rec["tau"], np.int64), arr(rec["lambda"], np.float64),
                     arr(rec["error"], np.float64), reads, arr(rec["counts"], np.int64), arr(rec["haplotypes"], np.int8), arr(rec["log_frequencies"], np.float64),
                     None, z(), z(), z(), z(), z(), z(), z(), np.zeros(mp))
            got = np.array(got)
        elif kind == "swap_acc":
            got = np.array([chain_swap_acceptance(*[float(v) for v in rec["args"]])])
        else:
            continue
        want = np.array(rec["vector"], dtype=np.float64)
        out["compared"] += 1
        if got.shape != want.shape or not np.allclose(got, want, rtol=1e-9, atol=1e-9):
            out["mismatches"].append({"record": k, "kind": kind, "compiled": got.tolist(), "interpreted": want.tolist()})
    return out


if __name__ == "__main__":
    if sys.argv[1] == "cache":
        print(json.dumps(probe_cache(int(sys.argv[2]), int(sys.argv[3]), small=len(sys.argv) > 4)))
    elif sys.argv[1] == "callcache":
        print(json.dumps(probe_callcache(int(sys.argv[2]), int(sys.argv[3]))))
    elif sys.argv[1] == "pedcache":
        print(json.dumps(probe_pedcache(int(sys.argv[2]), int(sys.argv[3]))))
    else:
        print(json.dumps(probe_kernels(sys.argv[2])))
