"""C18 - pedigree sampler moves are stationary at the joint posterior."""
from . import wl_cli
from . import wl_ped
from .engine_k import bootstrap

ID = "C18"
ENGINE = "K"
RUNS = {"quick": 4000, "thorough": 80000}
BATCH_WALL_CAP = {"quick": 1500, "thorough": 6 * 3600}
RUN_WALL_CAP = 600
RECHECK = {"quick": 12, "thorough": 200}
MIN_BUDGET = 60
MIN_WALL = 240.0

RULE = (
    "one evaluation = one simulated pedigree-sampler run (topology, ploidies, tau, lambda, error, reads, start state and every draw from the tape); "
    "distinct_nontrivial = distinct (topology, ploidies, target, current joint state of the target's Markov blanket, move) tuples of EXECUTED "
    "Gibbs / MH updates and parental swaps whose probabilities were compared with the joint built from trio_log_pmf x independent likelihood"
)
FAULT_KEYS = ["adversarial_choice", "shuffle", "swap_unequal_reads", "swap_q_more_reads_than_p"]
PROBE_KEYS = ["draws_from_verified_vector", "sweeps_full", "choice_fidelity_checked", "gibbs_vectors", "mh_pairs", "swap_pairs", "unbalanced_tau_target", "selfing_target", "one_unknown_parent_target",
              "target_has_children", "selfing_one_column", "refit_same_model", "swap_no_proposal", "swap_q_more_reads_than_p", "zero_density_skip", "cli_pedigrees_checked", "cli_unsequenced_member"]
OPTIONAL_PROBES = {"quick": (), "thorough": ()}
COMPONENTS = {
    "real": ["mchap.pedigree.mcmc.* (gibbs_probabilities, metropolis_hastings_probabilities, allele_step, sample_step, compound_step, pair_allele_swap_step, mcmc_sampler)",
             "mchap.pedigree.classes.PedigreeCallingMCMC.fit", "mchap.pedigree.prior.* (markov blanket, trio_allele_log_pmf, trio_log_pmf)",
             "mchap.pedigree.likelihood.*", "cli flavour (3%): mchap.application.call_pedigree.program end to end (pedigree / gamete files, read arrays, allele masking) vs the files", "all executed as plain Python (NUMBA_DISABLE_JIT=1)"],
    "stub": ["numpy.random.* (tape)", "random_choice in pedigree.mcmc (tape)"],
}
ASSUMPTIONS = [
    "oracle joint = product over individuals of (independent reference likelihood on the individual's own reads) x repo's complete-genotype trio_log_pmf / nperm; "
    "whether trio_log_pmf itself is a proper distribution is C17 (not applicable to this technique)",
    "numba compiles the pedigree step functions faithfully (observed interpreted)",
    "start states have positive joint density (forward-meiosis start whenever an error rate is 0)",
]


def prepare(tier):
    bootstrap()


def gen_config(rng, tier, index=0):
    if rng.random() < 0.03:
        return wl_cli.gen_pedigree_config(rng, tier)
    cfg = wl_ped.gen_config(rng, tier, "db")
    cfg["record_kernels"] = tier == "thorough" and index % 20 == 0
    return cfg


def execute(ctx):
    if ctx.config.get("flavor") == "cli":
        # the joint `mchap call-pedigree` hands to its sampler is the pedigree the files describe
        return wl_cli.run_pedigree_cli(ctx)
    sim = wl_ped.PedSim(ctx, ctx.config, checks=("db",))
    sim.run()


def sut_exception_is_violation(e, ctx):
    return True


def shrink_candidates(cfg, violation):
    if cfg.get("flavor") == "cli":
        return wl_cli.shrink_candidates(cfg)
    return wl_ped.shrink_candidates(cfg, violation)


def post_batch(tier, base_seed, results):
    """Thorough tier: gibbs_probabilities / metropolis_hastings_probabilities recomputed COMPILED on visited states."""
    from . import scn_c02
    out = scn_c02.post_batch(tier, base_seed, results, with_callcache=False)
    for v in out.get("violations", []):
        v["message"] = v["message"].replace("gibbs_options / mh_options", "pedigree gibbs / MH probabilities")
    # both tiers: the compiled sampler with its built-in cache against its cache-free twin (a move built from a cached value that
    # is not the likelihood is not the stated move)
    ev, vs = scn_c02.pedcache_probe(tier, base_seed)
    out["evidence"]["compiled_pedigree_sampler_cache_probe"] = ev
    out["violations"] += vs
    return out


def evidence(tier, results, counters):
    return {"simulated_time": "not applicable: no clock or timer enters this property; progress is counted in sampler iterations (simulated_steps) and logged events"}
